//! Common engine: tiers, seeds, worker threads, proptest runners, panic attribution, watchdog,
//! known findings, replay files and evidence files.

use proptest::strategy::{Strategy, ValueTree};
use proptest::test_runner::{Config, RngAlgorithm, RngSeed, TestCaseError, TestError, TestRng, TestRunner};
use serde::de::DeserializeOwned;
use serde::Serialize;
use serde_json::{json, Value as J};
use std::cell::RefCell;
use std::collections::hash_map::DefaultHasher;
use std::collections::{BTreeMap, BTreeSet, HashSet};
use std::fmt::Debug;
use std::hash::{Hash, Hasher};
use std::path::PathBuf;
use std::sync::atomic::{AtomicBool, AtomicUsize, Ordering};
use std::sync::{Arc, Mutex};
use std::time::{Duration, Instant};

/// the tree under test: /repo, or $VERIF_REPO (a snapshot of /repo handed to a background run)
pub fn repo_dir() -> String {
    std::env::var("VERIF_REPO").ok().filter(|s| !s.is_empty()).unwrap_or_else(|| "/repo".to_string())
}

/// root of the verification tree: /verif, or $VERIF_DIR (set by ./check to its own directory, so that a
/// snapshot of the tree started with `vp run` keeps its files to itself)
pub fn verif_dir() -> String {
    std::env::var("VERIF_DIR").ok().filter(|s| !s.is_empty()).unwrap_or_else(|| "/verif".to_string())
}

#[derive(Clone, Copy, Debug, PartialEq, Eq)]
pub enum Tier {
    Quick,
    Thorough,
}

impl Tier {
    pub fn name(&self) -> &'static str {
        match self {
            Tier::Quick => "quick",
            Tier::Thorough => "thorough",
        }
    }
    /// pick a count by tier
    pub fn pick(&self, quick: u64, thorough: u64) -> u64 {
        let scale = std::env::var("VERIF_SCALE").ok().and_then(|s| s.parse::<f64>().ok()).unwrap_or(1.0);
        let n = match self {
            Tier::Quick => quick,
            Tier::Thorough => thorough,
        };
        ((n as f64) * scale).max(1.0) as u64
    }
}

// ------------------------------------------------------------------------------------------
// Panic capture
// ------------------------------------------------------------------------------------------

#[derive(Clone, Debug, Default)]
pub struct PanicInfo {
    pub message: String,
    pub location: String,
    pub site: String,
}

thread_local! {
    static LAST_PANIC: RefCell<Option<PanicInfo>> = RefCell::new(None);
    static CAPTURE: RefCell<bool> = RefCell::new(false);
}

pub fn install_panic_hook() {
    let default_hook = std::panic::take_hook();
    std::panic::set_hook(Box::new(move |info| {
        let capturing = CAPTURE.with(|c| *c.borrow());
        if !capturing {
            default_hook(info);
            return;
        }
        let message = if let Some(s) = info.payload().downcast_ref::<&str>() {
            s.to_string()
        } else if let Some(s) = info.payload().downcast_ref::<String>() {
            s.clone()
        } else {
            "<non-string panic>".to_string()
        };
        let location = info.location().map(|l| format!("{}:{}", l.file(), l.line())).unwrap_or_default();
        let bt = std::backtrace::Backtrace::force_capture().to_string();
        if std::env::var("VERIF_SHOW_BT").is_ok() {
            eprintln!("{}", bt);
        }
        let mut site = String::new();
        let lines: Vec<&str> = bt.lines().collect();
        // frames: "  12: name" followed (optionally) by "      at file:line:col"; take the first
        // frame located in the repository under test
        let mut last_fn = String::new();
        let mut pending_unlocated: Vec<String> = vec![];
        for l in lines.iter() {
            let t = l.trim();
            if let Some(rest) = t.strip_prefix("at ") {
                let repo_prefix = format!("{}/", repo_dir());
                if rest.starts_with(&repo_prefix) {
                    let loc = rest.trim_start_matches(repo_prefix.as_str());
                    let loc = loc.rsplitn(2, ':').nth(1).unwrap_or(loc); // drop the column
                    let mut chain = pending_unlocated.join(" < ");
                    if !chain.is_empty() {
                        chain.push_str(" < ");
                    }
                    site = format!("{}{} ({})", chain, last_fn, loc);
                    break;
                }
                pending_unlocated.clear();
            } else if let Some(pos) = t.find(": ") {
                if t[..pos].chars().all(|c| c.is_ascii_digit()) {
                    if !last_fn.is_empty() && !pending_unlocated.contains(&last_fn) {
                        // the previous frame had no location line yet; remember it if it looks like user code
                    }
                    let name = t[pos + 2..].to_string();
                    // a frame without location (inlined callee) directly above the located frame
                    if !name.contains("::") && !name.starts_with('<') && !name.starts_with("{closure") {
                        pending_unlocated.push(name.clone());
                        if pending_unlocated.len() > 2 {
                            pending_unlocated.remove(0);
                        }
                    } else {
                        pending_unlocated.clear();
                    }
                    last_fn = name;
                    if let Some(p) = pending_unlocated.last() {
                        if *p == last_fn {
                            pending_unlocated.pop();
                        }
                    }
                }
            }
        }
        if site.is_empty() {
            site = format!("<no smartcalc frame> {}", location);
        }
        LAST_PANIC.with(|p| *p.borrow_mut() = Some(PanicInfo { message, location, site }));
    }));
}

/// Run `f`, turning a panic into `Err(PanicInfo)`. The default hook output is suppressed.
pub fn guarded<T>(f: impl FnOnce() -> T) -> Result<T, PanicInfo> {
    CAPTURE.with(|c| *c.borrow_mut() = true);
    LAST_PANIC.with(|p| *p.borrow_mut() = None);
    let r = std::panic::catch_unwind(std::panic::AssertUnwindSafe(f));
    CAPTURE.with(|c| *c.borrow_mut() = false);
    match r {
        Ok(v) => Ok(v),
        Err(_) => Err(LAST_PANIC.with(|p| p.borrow_mut().take()).unwrap_or_default()),
    }
}

// ------------------------------------------------------------------------------------------
// Case journal: what each thread is working on, readable by the supervisor if the process dies
// (stack overflow, abort, OOM kill) - a death that catch_unwind cannot turn into a value
// ------------------------------------------------------------------------------------------

thread_local! {
    static JOURNAL: RefCell<Option<std::fs::File>> = RefCell::new(None);
}

/// record the case this thread is about to check (a replay file in the journal directory, rewritten in place)
pub fn journal_case<C: Serialize>(prop: &str, sub: &str, case: &C) {
    let dir = match std::env::var("VERIF_JOURNAL_DIR") {
        Ok(d) if !d.is_empty() => d,
        _ => return,
    };
    JOURNAL.with(|j| {
        let mut j = j.borrow_mut();
        if j.is_none() {
            static NEXT: AtomicUsize = AtomicUsize::new(0);
            let k = NEXT.fetch_add(1, Ordering::SeqCst);
            *j = std::fs::OpenOptions::new().create(true).write(true).truncate(true).open(format!("{}/{}-{}.json", dir, std::process::id(), k)).ok();
        }
        if let Some(f) = j.as_mut() {
            use std::os::unix::fs::FileExt;
            let body = serde_json::to_vec(&json!({"property": prop, "sub": sub, "case": case})).unwrap_or_default();
            // length-prefixed so that a torn write is recognisable: "<len>\n<json>"
            let mut buf = format!("{}\n", body.len()).into_bytes();
            buf.extend_from_slice(&body);
            let _ = f.write_all_at(&buf, 0);
            let _ = f.set_len(buf.len() as u64);
        }
    });
}

/// this thread has finished its work: an idle journal is not a stalled one
pub fn journal_done() {
    JOURNAL.with(|j| {
        if let Some(f) = j.borrow_mut().as_mut() {
            use std::os::unix::fs::FileExt;
            let _ = f.write_all_at(b"0\n", 0);
            let _ = f.set_len(2);
        }
    });
}

/// journal files that hold a case and have not been rewritten for `secs` seconds
pub fn stalled_journals(dir: &str, secs: u64) -> usize {
    let mut n = 0;
    if let Ok(rd) = std::fs::read_dir(dir) {
        for e in rd.flatten() {
            if let Ok(md) = e.metadata() {
                if md.len() > 2 {
                    if let Ok(age) = md.modified().and_then(|m| m.elapsed().map_err(|e| std::io::Error::new(std::io::ErrorKind::Other, e))) {
                        if age.as_secs() >= secs {
                            n += 1;
                        }
                    }
                }
            }
        }
    }
    n
}

/// the cases found in a journal directory (one per thread that ever checked a case)
pub fn read_journal(dir: &str) -> Vec<J> {
    let mut out = vec![];
    if let Ok(rd) = std::fs::read_dir(dir) {
        let mut paths: Vec<_> = rd.flatten().map(|e| e.path()).collect();
        paths.sort();
        for p in paths {
            if let Ok(b) = std::fs::read(&p) {
                if let Some(pos) = b.iter().position(|c| *c == b'\n') {
                    let len: usize = std::str::from_utf8(&b[..pos]).ok().and_then(|s| s.parse().ok()).unwrap_or(0);
                    if len > 0 && b.len() >= pos + 1 + len {
                        if let Ok(j) = serde_json::from_slice::<J>(&b[pos + 1..pos + 1 + len]) {
                            out.push(j);
                        }
                    }
                }
            }
        }
    }
    out
}

// ------------------------------------------------------------------------------------------
// Verdicts
// ------------------------------------------------------------------------------------------

#[derive(Clone, Debug)]
pub enum Res {
    Pass,
    /// the case was generated but is outside what the check asserts (counted, by reason)
    Skip(&'static str),
    /// violation; `kf` names the known-finding signature the failure matches, if any
    Fail { msg: String, kf: Option<&'static str> },
}

#[derive(Clone, Debug)]
pub struct Verdict {
    pub res: Res,
    pub nontrivial: bool,
    pub classes: Vec<&'static str>,
    /// how the case looked when handed to the library (for samples / replay files)
    pub rendered: String,
}

impl Verdict {
    pub fn pass(rendered: String) -> Self {
        Verdict { res: Res::Pass, nontrivial: false, classes: vec![], rendered }
    }
    pub fn skip(reason: &'static str, rendered: String) -> Self {
        Verdict { res: Res::Skip(reason), nontrivial: false, classes: vec![], rendered }
    }
    pub fn fail(msg: String, rendered: String) -> Self {
        Verdict { res: Res::Fail { msg, kf: None }, nontrivial: false, classes: vec![], rendered }
    }
    pub fn nt(mut self, b: bool) -> Self {
        self.nontrivial = b;
        self
    }
    pub fn class(mut self, c: &'static str) -> Self {
        self.classes.push(c);
        self
    }
    pub fn class_if(mut self, b: bool, c: &'static str) -> Self {
        if b {
            self.classes.push(c);
        }
        self
    }
    pub fn known(mut self, id: Option<&'static str>) -> Self {
        if let Res::Fail { kf, .. } = &mut self.res {
            if kf.is_none() {
                *kf = id;
            }
        }
        self
    }
    pub fn is_fail(&self) -> bool {
        matches!(self.res, Res::Fail { .. })
    }
}

/// Accumulates failures inside a check: first failure wins.
#[derive(Default)]
pub struct Acc {
    pub fail: Option<(String, Option<&'static str>)>,
}
impl Acc {
    pub fn new() -> Self {
        Acc { fail: None }
    }
    pub fn fail(&mut self, msg: String) {
        if self.fail.is_none() {
            self.fail = Some((msg, None));
        }
    }
    pub fn fail_kf(&mut self, msg: String, kf: Option<&'static str>) {
        if self.fail.is_none() {
            self.fail = Some((msg, kf));
        }
    }
    pub fn ok(&self) -> bool {
        self.fail.is_none()
    }
    pub fn finish(self, rendered: String) -> Verdict {
        match self.fail {
            None => Verdict::pass(rendered),
            Some((msg, kf)) => Verdict { res: Res::Fail { msg, kf }, nontrivial: false, classes: vec![], rendered },
        }
    }
}

// ------------------------------------------------------------------------------------------
// A property sub-check
// ------------------------------------------------------------------------------------------

/// Run a check under the midnight guard: several properties read the current date (today, the default year, the
/// date part of every time); a failure of a case during which the UTC date changed is not believed - the case is
/// counted as skipped (the next run repeats it within one day).
pub fn guarded_check<P: Prop>(prop: &P, w: &mut Worker, case: &P::Case) -> Verdict {
    let day0 = chrono::Utc::now().date_naive();
    let v = prop.check(w, case);
    if v.is_fail() && chrono::Utc::now().date_naive() != day0 {
        return Verdict::skip("date changed during the case", v.rendered);
    }
    v
}

pub trait Prop: Sync {
    type Case: Debug + Clone + Serialize + DeserializeOwned + Send + Sync + 'static;
    /// name of the sub-check (unique within the property)
    fn name(&self) -> &'static str;
    fn check(&self, w: &mut Worker, case: &Self::Case) -> Verdict;
    /// shrink budget (re-executions of a failing case); sub-checks whose cases build calculators keep it small
    fn shrink_iters(&self) -> u32 {
        4000
    }
}

// ------------------------------------------------------------------------------------------
// Known findings
// ------------------------------------------------------------------------------------------

#[derive(Clone, Debug, serde::Deserialize)]
pub struct Finding {
    pub id: String,
    pub property: String,
    pub status: String, // "open" | "fixed"
    #[serde(default)]
    pub signature: String,
    /// same shape as a replay file: {"sub": "...", "case": {...}}
    pub witness: J,
    pub what: String,
    #[serde(default)]
    pub commit: Option<String>,
}

pub fn load_findings() -> Vec<Finding> {
    let p = format!("{}/known_findings.json", verif_dir());
    match std::fs::read_to_string(&p) {
        Ok(s) => match serde_json::from_str::<J>(&s) {
            Ok(j) => {
                let arr = j.get("findings").cloned().unwrap_or(J::Array(vec![]));
                match serde_json::from_value::<Vec<Finding>>(arr) {
                    Ok(v) => v,
                    Err(e) => {
                        eprintln!("known_findings.json: cannot decode: {}", e);
                        std::process::exit(3);
                    }
                }
            }
            Err(e) => {
                eprintln!("known_findings.json: invalid JSON: {}", e);
                std::process::exit(3);
            }
        },
        Err(_) => vec![],
    }
}

// ------------------------------------------------------------------------------------------
// Worker
// ------------------------------------------------------------------------------------------

#[derive(Default)]
pub struct Stats {
    pub cases: u64,
    pub evaluations: u64,
    pub nontrivial: HashSet<u64>,
    pub classes: BTreeMap<&'static str, u64>,
    pub skipped: BTreeMap<&'static str, u64>,
    pub kf_hits: BTreeMap<&'static str, u64>,
    pub samples: Vec<String>,
    pub nt_samples: Vec<String>,
}

impl Stats {
    fn merge(&mut self, o: Stats) {
        self.cases += o.cases;
        self.evaluations += o.evaluations;
        self.nontrivial.extend(o.nontrivial);
        for (k, v) in o.classes {
            *self.classes.entry(k).or_default() += v;
        }
        for (k, v) in o.skipped {
            *self.skipped.entry(k).or_default() += v;
        }
        for (k, v) in o.kf_hits {
            *self.kf_hits.entry(k).or_default() += v;
        }
        for s in o.samples {
            if self.samples.len() < 30 {
                self.samples.push(s);
            }
        }
        for s in o.nt_samples {
            if self.nt_samples.len() < 30 {
                self.nt_samples.push(s);
            }
        }
    }
}

pub struct Worker {
    pub idx: usize,
    pub tier: Tier,
    pub stats: Stats,
    /// set once a failure has been seen: the closure is re-run during shrinking, stop counting
    pub frozen: bool,
    /// evaluation counter (library calls), added to stats unless frozen
    pub calcs: crate::common::CalcCache,
    pub watch: Arc<WatchSlot>,
    pub active_kf: Arc<BTreeSet<String>>,
}

pub struct WatchSlot {
    pub current: Mutex<Option<(Instant, String)>>,
}

impl Worker {
    pub fn new(idx: usize, tier: Tier, watch: Arc<WatchSlot>, active_kf: Arc<BTreeSet<String>>) -> Worker {
        Worker { idx, tier, stats: Stats::default(), frozen: false, calcs: crate::common::CalcCache::new(), watch, active_kf }
    }
    pub fn count_eval(&mut self, n: u64) {
        if !self.frozen {
            self.stats.evaluations += n;
        }
    }
    pub fn watch_begin(&self, what: &str) {
        *self.watch.current.lock().unwrap() = Some((Instant::now(), what.to_string()));
    }
    pub fn watch_end(&self) {
        *self.watch.current.lock().unwrap() = None;
    }
    fn record(&mut self, v: &Verdict, sample_every: u64) {
        if self.frozen {
            return;
        }
        self.stats.cases += 1;
        match &v.res {
            Res::Skip(r) => {
                *self.stats.skipped.entry(r).or_default() += 1;
                return;
            }
            _ => {}
        }
        for c in &v.classes {
            *self.stats.classes.entry(c).or_default() += 1;
        }
        if v.nontrivial {
            let mut h = DefaultHasher::new();
            v.rendered.hash(&mut h);
            self.stats.nontrivial.insert(h.finish());
            if self.stats.nt_samples.len() < 3 && self.stats.cases % sample_every == 1 % sample_every {
                self.stats.nt_samples.push(v.rendered.clone());
            }
        }
        if self.stats.samples.len() < 3 && self.stats.cases % sample_every == 0 {
            self.stats.samples.push(v.rendered.clone());
        }
    }
}

// ------------------------------------------------------------------------------------------
// Context
// ------------------------------------------------------------------------------------------

#[derive(Clone, Debug)]
pub struct Violation {
    pub sub: String,
    pub case: J,
    pub rendered: String,
    pub msg: String,
    pub seed: u64,
}

pub struct Ctx {
    pub prop: &'static str,
    pub tier: Tier,
    pub seed: u64,
    pub threads: usize,
    pub started: Instant,
    pub total: Mutex<Stats>,
    pub sections: Mutex<Vec<J>>,
    pub violations: Mutex<Vec<Violation>>,
    pub findings: Vec<Finding>,
    /// ids of open findings whose witness still fails (their signatures suppress)
    pub active_kf: Mutex<Arc<BTreeSet<String>>>,
    pub rule: Mutex<Vec<String>>,
    pub assumptions: Mutex<Vec<String>>,
    pub exhaustive_parts: Mutex<Vec<String>>,
    pub hang: AtomicBool,
    /// VERIF_SURVEY=1: do not stop at failures, collect them by signature (triage aid, never used by registered checks)
    pub survey: Option<Mutex<BTreeMap<String, (u64, String)>>>,
    /// stages that could not be carried out (recorded in the evidence, never a verdict)
    pub notes: Mutex<Vec<String>>,
}

fn mix(seed: u64, parts: &[&str], n: u64) -> [u8; 32] {
    let mut out = [0u8; 32];
    for i in 0..4u64 {
        let mut h = DefaultHasher::new();
        seed.hash(&mut h);
        for p in parts {
            p.hash(&mut h);
        }
        n.hash(&mut h);
        i.hash(&mut h);
        out[(i as usize) * 8..(i as usize) * 8 + 8].copy_from_slice(&h.finish().to_le_bytes());
    }
    out
}

impl Ctx {
    pub fn new(prop: &'static str, tier: Tier) -> Ctx {
        let seed = std::env::var("VERIF_SEED").ok().and_then(|s| s.trim().parse::<i128>().ok()).map(|v| v as u64).unwrap_or(1);
        let threads = std::env::var("VERIF_THREADS").ok().and_then(|s| s.parse().ok()).unwrap_or_else(|| std::thread::available_parallelism().map(|n| n.get()).unwrap_or(8).min(16));
        let findings = load_findings().into_iter().filter(|f| f.property == prop).collect();
        Ctx {
            prop,
            tier,
            seed,
            threads,
            started: Instant::now(),
            total: Mutex::new(Stats::default()),
            sections: Mutex::new(vec![]),
            violations: Mutex::new(vec![]),
            findings,
            active_kf: Mutex::new(Arc::new(BTreeSet::new())),
            rule: Mutex::new(vec![]),
            assumptions: Mutex::new(vec![]),
            exhaustive_parts: Mutex::new(vec![]),
            hang: AtomicBool::new(false),
            survey: if std::env::var("VERIF_SURVEY").is_ok() { Some(Mutex::new(BTreeMap::new())) } else { None },
            notes: Mutex::new(vec![]),
        }
    }

    pub fn note_inconclusive(&self, s: &str) {
        eprintln!("[{}] note: {}", self.prop, s);
        self.notes.lock().unwrap().push(s.to_string());
    }
    pub fn push_violation(&self, sub: &str, case: J, rendered: String, msg: String) {
        self.violations.lock().unwrap().push(Violation { sub: sub.to_string(), case, rendered, msg, seed: self.seed });
    }
    pub fn add_section(&self, sec: J) {
        self.sections.lock().unwrap().push(sec);
    }
    pub fn add_evaluations(&self, n: u64) {
        self.total.lock().unwrap().evaluations += n;
    }
    pub fn rule(&self, s: &str) {
        self.rule.lock().unwrap().push(s.to_string());
    }
    pub fn assume(&self, s: &str) {
        self.assumptions.lock().unwrap().push(s.to_string());
    }

    fn new_worker(&self, idx: usize, watch: Arc<WatchSlot>) -> Worker {
        Worker::new(idx, self.tier, watch, self.active_kf.lock().unwrap().clone())
    }

    fn handle_verdict(&self, w: &mut Worker, v: &Verdict, strict: bool) -> bool {
        // returns true when the verdict is a (non-suppressed) failure
        match &v.res {
            Res::Fail { kf, msg } => {
                if let (Some(sv), false) = (&self.survey, strict) {
                    let mut key: String = msg.chars().filter(|c| !c.is_ascii_digit()).take(110).collect();
                    if let Some(k) = kf {
                        key = format!("[{}] {}", k, key);
                    }
                    let mut m = sv.lock().unwrap();
                    let e = m.entry(key).or_insert((0, v.rendered.clone()));
                    e.0 += 1;
                    if v.rendered.len() < e.1.len() {
                        e.1 = v.rendered.clone();
                    }
                    return false;
                }
                if !strict {
                    if let Some(id) = kf {
                        if w.active_kf.contains(*id) {
                            if !w.frozen {
                                *w.stats.kf_hits.entry(id).or_default() += 1;
                            }
                            return false;
                        }
                    }
                }
                true
            }
            _ => false,
        }
    }

    /// Run `cases` generated cases of `prop` drawn from `strategy`, split over the worker threads.
    pub fn run_generated<P: Prop, S: Strategy<Value = P::Case>>(&self, prop: &P, cases: u64, make_strategy: impl Fn() -> S + Sync) {
        let threads = self.threads.max(1).min(cases.max(1) as usize);
        let per = (cases + threads as u64 - 1) / threads as u64;
        let t0 = Instant::now();
        let slots: Vec<Arc<WatchSlot>> = (0..threads).map(|_| Arc::new(WatchSlot { current: Mutex::new(None) })).collect();
        let done = AtomicUsize::new(0);
        let merged = Mutex::new(Stats::default());
        std::thread::scope(|sc| {
            for t in 0..threads {
                let slot = slots[t].clone();
                let done = &done;
                let merged = &merged;
                let make_strategy = &make_strategy;
                // large stacks: the composed proptest strategies recurse deeply when a value tree is built
                std::thread::Builder::new().stack_size(256 << 20).spawn_scoped(sc, move || {
                    let mut w = self.new_worker(t, slot);
                    let cfg = Config { cases: per as u32, failure_persistence: None, max_shrink_iters: prop.shrink_iters(), max_shrink_time: 0, verbose: 0, rng_algorithm: RngAlgorithm::ChaCha, ..Config::default() };
                    let seed_bytes = mix(self.seed, &[self.prop, prop.name()], t as u64);
                    let rng = TestRng::from_seed(RngAlgorithm::ChaCha, &seed_bytes);
                    let mut runner = TestRunner::new_with_rng(cfg, rng);
                    let strategy = make_strategy();
                    let sample_every = (per / 3).max(1);
                    let wcell = RefCell::new(&mut w);
                    let result = runner.run(&strategy, |case| {
                        let mut wb = wcell.borrow_mut();
                        journal_case(self.prop, prop.name(), &case);
                        let v = guarded_check(prop, &mut **wb, &case);
                        wb.record(&v, sample_every);
                        if self.handle_verdict(&mut **wb, &v, false) {
                            wb.frozen = true;
                            let msg = match &v.res {
                                Res::Fail { msg, .. } => msg.clone(),
                                _ => String::new(),
                            };
                            Err(TestCaseError::fail(msg))
                        } else {
                            Ok(())
                        }
                    });
                    drop(wcell);
                    match result {
                        Ok(()) => {}
                        Err(TestError::Fail(_reason, minimal)) => {
                            w.frozen = true;
                            let v = guarded_check(prop, &mut w, &minimal);
                            let msg = match &v.res {
                                Res::Fail { msg, .. } => msg.clone(),
                                other => format!("(shrunk case no longer fails: {:?})", other),
                            };
                            self.violations.lock().unwrap().push(Violation { sub: prop.name().to_string(), case: serde_json::to_value(&minimal).unwrap_or(J::Null), rendered: v.rendered.clone(), msg, seed: self.seed });
                        }
                        Err(TestError::Abort(reason)) => {
                            eprintln!("[{}:{}] worker {} aborted: {}", self.prop, prop.name(), t, reason);
                        }
                    }
                    merged.lock().unwrap().merge(std::mem::take(&mut w.stats));
                    journal_done();
                    done.fetch_add(1, Ordering::SeqCst);
                }).expect("spawn worker");
            }
            self.watchdog(&slots, &done, threads);
        });
        self.finish_section(prop.name(), "generated", merged.into_inner().unwrap(), t0, false);
    }

    /// Run a finite list of cases (a table / exhaustive enumeration), split over worker threads.
    pub fn run_table<P: Prop>(&self, prop: &P, label: &str, cases: Vec<P::Case>, exhaustive: bool) {
        let n = cases.len();
        if n == 0 {
            return;
        }
        let threads = self.threads.max(1).min(n);
        let t0 = Instant::now();
        let slots: Vec<Arc<WatchSlot>> = (0..threads).map(|_| Arc::new(WatchSlot { current: Mutex::new(None) })).collect();
        let done = AtomicUsize::new(0);
        let merged = Mutex::new(Stats::default());
        let cases = &cases;
        let dump = std::env::var("VERIF_DUMP_TABLE").map_or(false, |v| v == label || v == "all");
        std::thread::scope(|sc| {
            for t in 0..threads {
                let slot = slots[t].clone();
                let done = &done;
                let merged = &merged;
                // large stacks: the composed proptest strategies recurse deeply when a value tree is built
                std::thread::Builder::new().stack_size(256 << 20).spawn_scoped(sc, move || {
                    let mut w = self.new_worker(t, slot);
                    let mine = (n + threads - 1 - t) / threads;
                    let sample_every = (mine as u64 / 3).max(1);
                    let mut i = t;
                    let mut reported = 0;
                    while i < n {
                        let case = &cases[i];
                        journal_case(self.prop, prop.name(), case);
                        let v = guarded_check(prop, &mut w, case);
                        if dump {
                            eprintln!("DUMP {}", json!({"sub": prop.name(), "part": label, "rendered": v.rendered, "case": serde_json::to_value(case).unwrap_or(J::Null)}));
                        }
                        w.record(&v, sample_every);
                        if self.handle_verdict(&mut w, &v, false) && reported < 3 {
                            reported += 1;
                            let msg = match &v.res {
                                Res::Fail { msg, .. } => msg.clone(),
                                _ => String::new(),
                            };
                            self.violations.lock().unwrap().push(Violation { sub: prop.name().to_string(), case: serde_json::to_value(case).unwrap_or(J::Null), rendered: v.rendered.clone(), msg, seed: self.seed });
                        }
                        i += threads;
                    }
                    merged.lock().unwrap().merge(std::mem::take(&mut w.stats));
                    journal_done();
                    done.fetch_add(1, Ordering::SeqCst);
                }).expect("spawn worker");
            }
            self.watchdog(&slots, &done, threads);
        });
        if exhaustive {
            self.exhaustive_parts.lock().unwrap().push(format!("{}:{} ({} cases)", prop.name(), label, n));
        }
        self.finish_section(prop.name(), label, merged.into_inner().unwrap(), t0, exhaustive);
    }

    fn finish_section(&self, sub: &str, label: &str, st: Stats, t0: Instant, exhaustive: bool) {
        let sec = json!({
            "sub": sub, "part": label, "cases": st.cases, "evaluations": st.evaluations,
            "distinct_nontrivial": st.nontrivial.len(), "exhaustive": exhaustive,
            "wall_s": (t0.elapsed().as_secs_f64()*1000.0).round()/1000.0,
            "classes": st.classes, "skipped": st.skipped, "known_finding_hits": st.kf_hits,
        });
        eprintln!("[{} {}:{}] cases={} evals={} nontrivial={} skipped={:?} kf_hits={:?} {:.1}s", self.prop, sub, label, st.cases, st.evaluations, st.nontrivial.len(), st.skipped, st.kf_hits, t0.elapsed().as_secs_f64());
        self.sections.lock().unwrap().push(sec);
        let mut st = st;
        st.samples.truncate(3);
        st.nt_samples.truncate(3);
        // prefix class names with the sub name when merging into the total
        self.total.lock().unwrap().merge(st);
    }

    fn watchdog(&self, slots: &[Arc<WatchSlot>], done: &AtomicUsize, threads: usize) {
        let limit = Duration::from_secs(std::env::var("VERIF_HANG_S").ok().and_then(|s| s.parse().ok()).unwrap_or(20));
        // an evaluation that a fresh process finishes at once was slow because the MACHINE was busy: the clock of that
        // slot is restarted and the run goes on; only when the same evaluation trips the watchdog four times is the run
        // given up as inconclusive
        let mut false_trips: BTreeMap<String, u32> = BTreeMap::new();
        loop {
            if done.load(Ordering::SeqCst) >= threads {
                return;
            }
            std::thread::sleep(Duration::from_millis(50));
            for s in slots {
                let cur = s.current.lock().unwrap().clone();
                if let Some((t, what)) = cur {
                    if t.elapsed() > limit {
                        self.report_hang(&what);
                        let n = false_trips.entry(what.clone()).or_insert(0);
                        *n += 1;
                        if *n >= 4 {
                            eprintln!("[{}] the same evaluation tripped the watchdog four times although a fresh process finishes it: inconclusive", self.prop);
                            self.write_evidence(2);
                            std::process::exit(2);
                        }
                        let mut g = s.current.lock().unwrap();
                        if let Some((start, w)) = g.as_mut() {
                            if *w == what {
                                *start = Instant::now();
                            }
                        }
                    }
                }
            }
        }
    }

    /// One evaluation exceeded the watchdog limit. Confirm in a child process, then exit.
    fn report_hang(&self, what: &str) {
        let dir = format!("{}/replays", verif_dir());
        let _ = std::fs::create_dir_all(&dir);
        let path = format!("{}/{}-{}-hang.json", dir, self.prop, self.seed);
        let body = json!({"property": self.prop, "sub": "hang", "case": serde_json::from_str::<J>(what).unwrap_or(J::String(what.to_string())), "rendered": what, "message": "evaluation did not return within the watchdog limit"});
        let _ = std::fs::write(&path, serde_json::to_string_pretty(&body).unwrap());
        eprintln!("[{}] watchdog: an evaluation is stuck; confirming in a child process (120 s): {}", self.prop, what);
        let exe = std::env::current_exe().unwrap();
        let mut child = std::process::Command::new(exe).arg("--hang-probe").arg(&path).spawn().expect("spawn probe");
        let t0 = Instant::now();
        loop {
            match child.try_wait() {
                Ok(Some(_)) => {
                    eprintln!("[{}] the child finished the same input in {:.1}s: the machine is busy, not the library stuck; going on", self.prop, t0.elapsed().as_secs_f64());
                    let _ = std::fs::remove_file(&path);
                    return;
                }
                Ok(None) => {
                    if t0.elapsed() > Duration::from_secs(120) {
                        let _ = child.kill();
                        self.violations.lock().unwrap().push(Violation { sub: "hang".into(), case: J::String(what.to_string()), rendered: what.to_string(), msg: "evaluation does not terminate (20 s in-process, 120 s in a fresh process)".into(), seed: self.seed });
                        println!("VIOLATION property={} replay={}", self.prop, path);
                        self.write_evidence(1);
                        std::process::exit(1);
                    }
                    std::thread::sleep(Duration::from_millis(200));
                }
                Err(_) => std::process::exit(2),
            }
        }
    }

    /// Replay the witnesses of the known findings of this property (strict mode):
    /// open + still failing -> KNOWN-FINDING line and the signature becomes active;
    /// fixed + failing again -> violation.
    pub fn replay_findings(&self, replay: &dyn Fn(&mut Worker, &str, &J) -> Option<Verdict>) {
        let slot = Arc::new(WatchSlot { current: Mutex::new(None) });
        let mut w = Worker::new(0, self.tier, slot, Arc::new(BTreeSet::new()));
        w.frozen = true;
        let mut active = BTreeSet::new();
        for f in &self.findings {
            let sub = f.witness.get("sub").and_then(|s| s.as_str()).unwrap_or("");
            let case = f.witness.get("case").cloned().unwrap_or(J::Null);
            journal_case(self.prop, sub, &case);
            let v = match replay(&mut w, sub, &case) {
                Some(v) => v,
                None => {
                    eprintln!("[{}] known finding {}: witness cannot be decoded (sub={})", self.prop, f.id, sub);
                    std::process::exit(3);
                }
            };
            let fails = v.is_fail();
            match (f.status.as_str(), fails) {
                ("open", true) => {
                    println!("KNOWN-FINDING: property={} {} {} [witness: {}]", self.prop, f.id, f.what, v.rendered.replace('\n', "\\n"));
                    active.insert(f.id.clone());
                }
                ("open", false) => {
                    eprintln!("[{}] note: open finding {} no longer reproduces on this tree; its signature is not applied", self.prop, f.id);
                }
                ("fixed", true) => {
                    let msg = match &v.res {
                        Res::Fail { msg, .. } => msg.clone(),
                        _ => String::new(),
                    };
                    self.violations.lock().unwrap().push(Violation { sub: sub.to_string(), case, rendered: v.rendered.clone(), msg: format!("regression of fixed finding {}: {}", f.id, msg), seed: self.seed });
                }
                _ => {}
            }
        }
        journal_done();
        *self.active_kf.lock().unwrap() = Arc::new(active);
    }

    pub fn write_evidence(&self, exit_code: i32) {
        let total = self.total.lock().unwrap();
        let mut samples: Vec<J> = vec![];
        for s in total.nt_samples.iter().chain(total.samples.iter()) {
            if samples.len() < 48 {
                samples.push(J::String(s.clone()));
            }
        }
        let violations = self.violations.lock().unwrap();
        let ex = self.exhaustive_parts.lock().unwrap();
        let ev = json!({
            "property_id": self.prop,
            "tier": self.tier.name(),
            "seed": self.seed as i64,
            "level": "exploration",
            "wall_s": (self.started.elapsed().as_secs_f64()*1000.0).round()/1000.0,
            "violations": violations.len(),
            "exit_code": exit_code,
            "coverage": {
                "evaluations": total.evaluations,
                "cases": total.cases,
                "distinct_nontrivial": total.nontrivial.len(),
                "rule": self.rule.lock().unwrap().join(" | "),
                "samples": samples,
                "classes": total.classes,
                "excluded": total.skipped,
                "known_finding_hits": total.kf_hits,
                "exhaustive": false,
                "exhaustive_subspaces": *ex,
                "sections": *self.sections.lock().unwrap(),
            },
            "assumptions": *self.assumptions.lock().unwrap(),
            "notes": *self.notes.lock().unwrap(),
        });
        let dir = format!("{}/evidence", verif_dir());
        let _ = std::fs::create_dir_all(&dir);
        let path = format!("{}/{}.json", dir, self.prop);
        let tmp = format!("{}.tmp", path);
        std::fs::write(&tmp, serde_json::to_string_pretty(&ev).unwrap()).expect("write evidence");
        std::fs::rename(&tmp, &path).expect("rename evidence");
    }

    /// Write replay files, print VIOLATION lines, write evidence, return the exit code.
    pub fn finish(&self) -> i32 {
        if let Some(sv) = &self.survey {
            let m = sv.lock().unwrap();
            eprintln!("---- survey: {} failure signatures ----", m.len());
            for (k, (n, ex)) in m.iter() {
                eprintln!("{:>7}  {}\n         e.g. {}", n, k, ex);
            }
        }
        let violations = self.violations.lock().unwrap().clone();
        let dir = format!("{}/replays", verif_dir());
        let mut code = 0;
        if !violations.is_empty() {
            let _ = std::fs::create_dir_all(&dir);
            code = 1;
        }
        let mut seen = BTreeSet::new();
        let mut printed = 0;
        for (k, v) in violations.iter().enumerate() {
            // one file per distinct (sub, rendered)
            if !seen.insert((v.sub.clone(), v.rendered.clone())) {
                continue;
            }
            let path = PathBuf::from(format!("{}/{}-{}-{}-{}.json", dir, self.prop, v.sub, self.seed, k));
            let body = json!({"property": self.prop, "sub": v.sub, "seed": v.seed, "tier": self.tier.name(), "case": v.case, "rendered": v.rendered, "message": v.msg});
            let _ = std::fs::write(&path, serde_json::to_string_pretty(&body).unwrap());
            printed += 1;
            if printed > 25 {
                continue;
            }
            println!("VIOLATION property={} replay={}", self.prop, path.display());
            eprintln!("  sub={} input={:?}\n  {}", v.sub, v.rendered, v.msg);
        }
        if printed > 25 {
            eprintln!("  ... {} further violations (replay files written, not listed)", printed - 25);
        }
        self.write_evidence(code);
        let total = self.total.lock().unwrap();
        eprintln!("[{}] tier={} seed={} cases={} evaluations={} distinct_nontrivial={} violations={} wall={:.1}s", self.prop, self.tier.name(), self.seed, total.cases, total.evaluations, total.nontrivial.len(), violations.len(), self.started.elapsed().as_secs_f64());
        code
    }
}

/// Strict replay of one case of a sub-check from its JSON form.
pub fn replay_case<P: Prop>(prop: &P, w: &mut Worker, case: &J) -> Option<Verdict> {
    let c: P::Case = serde_json::from_value(case.clone()).ok()?;
    Some(prop.check(w, &c))
}

/// Sample one value from a strategy with a deterministic rng (used for building tables).
pub fn sample_n<S: Strategy>(s: &S, seed: u64, n: usize) -> Vec<S::Value> {
    let rng = TestRng::from_seed(RngAlgorithm::ChaCha, &mix(seed, &["sample"], 0));
    let mut runner = TestRunner::new_with_rng(Config { failure_persistence: None, ..Config::default() }, rng);
    let _ = RngSeed::Random;
    (0..n).filter_map(|_| s.new_tree(&mut runner).ok().map(|t| t.current())).collect()
}

pub fn monotone_index(i: u32, len: usize) -> usize {
    ((i as u64 * len as u64) >> 32) as usize
}
