//! User-defined unit families as inputs of C15 (a printed unit quantity can be typed back in) and C17 (a
//! number literal keeps its own highlight token): the built-in units all follow one convention - pattern
//! `{NUMBER:value} {TEXT:type:<lower-case word>}`, format `{value} <Capitalised word>` - so a unit quantity
//! of a family registered through add_dynamic_type / add_dynamic_type_item with the SAME convention (also with
//! non-ASCII letters), or with the unit word in front of the value, is a unit quantity like any other.

use crate::common::{build_calc, eval_on, Cfg, Slot, READ_SEPS, V};
use crate::engine::{Acc, Prop, Verdict, Worker};
use proptest::prelude::*;
use serde::{Deserialize, Serialize};
use smartcalc::{SmartCalc, UiTokenType};

/// (parse word, printed word, unit word first?)
pub const UNITS: [(&str, &str, bool); 8] = [
    ("widget", "Widget", false),
    ("ölçek", "Ölçek", false),
    ("çuval", "Çuval", false),
    ("мера", "Мера", false),
    ("kwh", "kWh", false),
    ("size", "size", true),
    ("boyut", "Boyut", true),
    ("unité", "Unité", false),
];

#[derive(Clone, Debug, Serialize, Deserialize)]
pub struct Case {
    /// which of UNITS are registered, in chain order (indices 1..), at least two
    pub units: Vec<u8>,
    /// amounts in thousandths
    pub amounts: Vec<u32>,
    pub seps: u8,
    pub digits: u8,
    /// "C15": print -> type back -> print; "C17": highlight tokens; "C08": conversion codes with fractional constants
    pub what: String,
    /// "C08": register the family BEFORE the separators are set through the setters (else after)
    #[serde(default)]
    pub reg_first: bool,
}

/// link factors with a fraction, written in the fixed notation of conversion codes ('.' decimal, no grouping)
pub const FACTORS: [(&str, f64); 4] = [("2.5", 2.5), ("16.5", 16.5), ("0.25", 0.25), ("1000.5", 1000.5)];

fn registered(c: &Case) -> Vec<usize> {
    let mut v: Vec<usize> = vec![];
    for u in &c.units {
        let i = *u as usize % UNITS.len();
        if !v.contains(&i) {
            v.push(i);
        }
    }
    if v.len() < 2 {
        v.push((v[0] + 1) % UNITS.len());
    }
    v
}

fn make_calc(cfg: &Cfg, units: &[usize]) -> Result<SmartCalc, String> {
    make_calc_ordered(cfg, units, false, None)
}

/// `reg_first`: the family is registered on a default calculator and the configuration applied afterwards through the
/// setters; `factor`: the code of every link (`{value} / f` up, `{value} * f` down) instead of the integer 10
fn make_calc_ordered(cfg: &Cfg, units: &[usize], reg_first: bool, factor: Option<&str>) -> Result<SmartCalc, String> {
    let mut calc = if reg_first { build_calc(&Cfg::default()) } else { build_calc(cfg) };
    let f = factor.unwrap_or("10");
    if !calc.add_dynamic_type("olcu".to_string()) {
        return Err("add_dynamic_type returned false for a fresh name".into());
    }
    for (k, u) in units.iter().enumerate() {
        let (word, printed, first) = UNITS[*u];
        let (format, parse) = if first { (format!("{} {{value}}", printed), format!("{{TEXT:type:{}}} {{NUMBER:value}}", word)) } else { (format!("{{value}} {}", printed), format!("{{NUMBER:value}} {{TEXT:type:{}}}", word)) };
        let ok = calc.add_dynamic_type_item("olcu".to_string(), k + 1, format, vec![parse], format!("{{value}} / {}", f), format!("{{value}} * {}", f), vec![word.to_string()], None, None, None);
        if !ok {
            return Err(format!("add_dynamic_type_item returned false for a fresh index {}", k + 1));
        }
    }
    if reg_first {
        crate::common::apply_cfg(&mut calc, cfg);
    }
    Ok(calc)
}

pub struct CustomUnits;

impl Prop for CustomUnits {
    type Case = Case;
    fn shrink_iters(&self) -> u32 {
        300
    }
    fn name(&self) -> &'static str {
        "custom-units"
    }
    fn check(&self, w: &mut Worker, c: &Case) -> Verdict {
        let (dec, thou) = READ_SEPS[c.seps as usize % 4];
        let mut cfg = Cfg::seps(dec, thou);
        cfg.num = Some((c.digits % 5, true, true));
        let units = registered(c);
        let rendered = format!("[{} units {:?}] amounts {:?}", cfg.label(), units.iter().map(|u| UNITS[*u].0).collect::<Vec<_>>(), c.amounts);
        let calc = match crate::engine::guarded(|| make_calc(&cfg, &units)) {
            Ok(Ok(c)) => c,
            Ok(Err(e)) => return Verdict::fail(e, rendered),
            Err(p) => return Verdict::fail(format!("registration panicked at {}: {}", p.site, p.message), rendered),
        };
        if c.what == "C08" {
            return check_codes(w, c, &cfg, &units, rendered);
        }
        let mut acc = Acc::new();
        let mut checked = 0;
        let mut non_ascii = false;
        let mut unit_first = false;
        'outer: for (k, u) in units.iter().enumerate() {
            let (word, _printed, first) = UNITS[*u];
            for a in &c.amounts {
                let amount = crate::common::literal(*a as f64 / 1000.0, dec, thou, false);
                let line = if first { format!("{} {}", word, amount) } else { format!("{} {}", amount, word) };
                w.count_eval(1);
                let o1 = match eval_on(&calc, "en", &line) {
                    Ok(o) => o,
                    Err(p) => {
                        acc.fail(format!("{:?}: panic at {}: {}", line, p.site, p.message));
                        break 'outer;
                    }
                };
                let (out1, v1) = match o1.slots.first() {
                    Some(Slot::Ok { out, v: V::Unit(x, g, idx) }) if g == "olcu" && *idx == k + 1 => (out.clone(), *x),
                    other => {
                        acc.fail(format!("{:?} should be a quantity of the registered unit #{} of family olcu, got {:?}", line, k + 1, other.map(|s| s.brief())));
                        break 'outer;
                    }
                };
                checked += 1;
                non_ascii |= !word.is_ascii();
                unit_first |= first;
                if c.what == "C17" {
                    // the number literal is reported as a Number token covering exactly its characters
                    let start = if first { word.chars().count() + 1 } else { 0 };
                    let end = start + amount.chars().count();
                    let ui = &o1.ui[0];
                    if let Err(e) = crate::c17::check_valid(ui, &line) {
                        acc.fail(format!("{:?}: {}", line, e));
                        break 'outer;
                    }
                    if !ui.iter().any(|t| t.ui_type == UiTokenType::Number && (t.start, t.end) == (start, end)) {
                        acc.fail(format!("{:?}: the number literal at characters ({}, {}) is not reported as a Number token with exactly that span; tokens: {:?}", line, start, end, ui.iter().map(|t| format!("{:?}({},{})", t.ui_type, t.start, t.end)).collect::<Vec<_>>()));
                        break 'outer;
                    }
                } else {
                    // print -> type back -> print
                    w.count_eval(1);
                    match eval_on(&calc, "en", &out1) {
                        Ok(o2) => match o2.slots.first() {
                            Some(Slot::Ok { out: out2, .. }) if *out2 == out1 => {}
                            other => {
                                acc.fail(format!("{:?} prints {:?} (value {}), which typed back in gives {:?}", line, out1, v1, other.map(|s| s.brief())));
                                break 'outer;
                            }
                        },
                        Err(p) => {
                            acc.fail(format!("{:?}: panic at {}: {}", out1, p.site, p.message));
                            break 'outer;
                        }
                    }
                }
            }
        }
        acc.finish(rendered).nt(checked > 0).class("user-defined-unit-family").class_if(non_ascii, "unit-word-with-non-ascii-letters").class_if(unit_first, "unit-word-before-the-value")
    }
}

/// C08: a conversion along a link whose code holds a fractional constant gives amount / factor (amount * factor downwards)
/// under every separator convention and whichever came first, the registration or the separator setters
fn check_codes(w: &mut Worker, c: &Case, cfg: &Cfg, units: &[usize], rendered: String) -> Verdict {
    let (dec, thou) = READ_SEPS[c.seps as usize % 4];
    let (ftext, f) = FACTORS[c.digits as usize % FACTORS.len()];
    let rendered = format!("{} link factor {} registered {} the separators", rendered, ftext, if c.reg_first { "before" } else { "after" });
    let calc = match crate::engine::guarded(|| make_calc_ordered(cfg, units, c.reg_first, Some(ftext))) {
        Ok(Ok(c)) => c,
        Ok(Err(e)) => return Verdict::fail(e, rendered),
        Err(p) => return Verdict::fail(format!("registration panicked at {}: {}", p.site, p.message), rendered),
    };
    let mut acc = Acc::new();
    let plain: Vec<usize> = units.iter().copied().filter(|u| !UNITS[*u].2).collect();
    let mut checked = 0;
    'outer: for a in &c.amounts {
        let amount = *a as f64 / 1000.0;
        let lit = crate::common::literal(amount, dec, thou, false);
        for (i, ui) in units.iter().enumerate() {
            for (j, uj) in units.iter().enumerate() {
                if UNITS[*ui].2 || UNITS[*uj].2 || !plain.contains(ui) || i == j {
                    continue;
                }
                let line = format!("{} {} to {}", lit, UNITS[*ui].0, UNITS[*uj].0);
                let exp = if j > i { amount / f.powi((j - i) as i32) } else { amount * f.powi((i - j) as i32) };
                w.count_eval(1);
                match eval_on(&calc, "en", &line) {
                    Ok(o) => match o.slots.first() {
                        Some(Slot::Ok { v: V::Unit(x, g, idx), .. }) if g == "olcu" && *idx == j + 1 && crate::common::close(*x, exp) => checked += 1,
                        other => {
                            acc.fail(format!("{:?} should be {} of unit #{} (factor {} per link), got {:?}", line, exp, j + 1, ftext, other.map(|s| s.brief())));
                            break 'outer;
                        }
                    },
                    Err(p) => {
                        acc.fail(format!("{:?}: panic at {}: {}", line, p.site, p.message));
                        break 'outer;
                    }
                }
            }
        }
    }
    acc.finish(rendered).nt(checked > 0).class("user-family-with-fractional-link-factors").class_if(c.reg_first, "family-registered-before-the-separators-were-set")
}

pub fn case_strategy(what: &'static str) -> impl Strategy<Value = Case> {
    (prop::collection::vec(0u8..8, 2..5), prop::collection::vec(prop_oneof![3 => 0u32..100_000, 1 => (0u32..5000).prop_map(|v| v * 1000), 1 => 0u32..=3_000_000], 3..10), 0u8..4, 0u8..5).prop_map(move |(units, amounts, seps, digits)| Case { units, amounts, seps, digits, what: what.to_string(), reg_first: (amounts_parity(seps, digits)) })
}

fn amounts_parity(seps: u8, digits: u8) -> bool {
    (seps / 2 + digits) % 2 == 1
}

pub fn replay(w: &mut Worker, case: &serde_json::Value) -> Option<Verdict> {
    crate::engine::replay_case(&CustomUnits, w, case)
}
