//! Independent proleptic-Gregorian calendar arithmetic (no chrono): the reference model for
//! C09 / C14 and for the date exclusion of C02.

pub fn is_leap(y: i64) -> bool {
    (y % 4 == 0 && y % 100 != 0) || y % 400 == 0
}

pub fn days_in_month(y: i64, m: i64) -> i64 {
    match m {
        1 | 3 | 5 | 7 | 8 | 10 | 12 => 31,
        4 | 6 | 9 | 11 => 30,
        2 => {
            if is_leap(y) {
                29
            } else {
                28
            }
        }
        _ => 0,
    }
}

/// validity in the range chrono's NaiveDate supports
pub fn valid_ymd(y: i64, m: i64, d: i64) -> bool {
    (-262_144..=262_143).contains(&y) && (1..=12).contains(&m) && d >= 1 && d <= days_in_month(y, m)
}

/// days since 1970-01-01 (Howard Hinnant's days_from_civil)
pub fn days_from_civil(y: i64, m: i64, d: i64) -> i64 {
    let y = if m <= 2 { y - 1 } else { y };
    let era = if y >= 0 { y } else { y - 399 } / 400;
    let yoe = y - era * 400;
    let mp = (m + 9) % 12;
    let doy = (153 * mp + 2) / 5 + d - 1;
    let doe = yoe * 365 + yoe / 4 - yoe / 100 + doy;
    era * 146_097 + doe - 719_468
}

pub fn civil_from_days(z: i64) -> (i64, i64, i64) {
    let z = z + 719_468;
    let era = if z >= 0 { z } else { z - 146_096 } / 146_097;
    let doe = z - era * 146_097;
    let yoe = (doe - doe / 1460 + doe / 36_524 - doe / 146_096) / 365;
    let y = yoe + era * 400;
    let doy = doe - (365 * yoe + yoe / 4 - yoe / 100);
    let mp = (5 * doy + 2) / 153;
    let d = doy - (153 * mp + 2) / 5 + 1;
    let m = if mp < 10 { mp + 3 } else { mp - 9 };
    (if m <= 2 { y + 1 } else { y }, m, d)
}

/// chrono's num_days_from_ce for 1970-01-01
pub const CE_OFFSET: i64 = 719_163;

/// days since 0001-01-01 counted like chrono's `num_days_from_ce` (0001-01-01 = 1)
pub fn ce_days(y: i64, m: i64, d: i64) -> i64 {
    days_from_civil(y, m, d) + CE_OFFSET
}

pub fn civil_from_ce(ce: i64) -> (i64, i64, i64) {
    civil_from_days(ce - CE_OFFSET)
}

/// self-test against chrono (run at start-up of the checks that use the calendar)
pub fn self_test() {
    use chrono::{Datelike, NaiveDate};
    let probes: [(i32, u32, u32); 12] = [(1, 1, 1), (1970, 1, 1), (2000, 2, 29), (1900, 3, 1), (9999, 12, 31), (2024, 2, 29), (2023, 12, 31), (1600, 2, 29), (100, 3, 1), (4, 2, 29), (2038, 1, 19), (1969, 12, 31)];
    for (y, m, d) in probes {
        let c = NaiveDate::from_ymd_opt(y, m, d).expect("probe");
        assert_eq!(c.num_days_from_ce() as i64, ce_days(y as i64, m as i64, d as i64), "ce_days {}-{}-{}", y, m, d);
        assert_eq!(civil_from_ce(c.num_days_from_ce() as i64), (y as i64, m as i64, d as i64));
    }
    // a sweep
    let mut day = ce_days(1, 1, 1);
    let end = ce_days(9999, 12, 31);
    while day <= end {
        let (y, m, d) = civil_from_ce(day);
        let c = NaiveDate::from_num_days_from_ce_opt(day as i32).expect("sweep");
        assert_eq!((c.year() as i64, c.month() as i64, c.day() as i64), (y, m, d));
        day += 97;
    }
    assert!(!valid_ymd(2021, 2, 29) && valid_ymd(2020, 2, 29) && !valid_ymd(2020, 13, 1) && !valid_ymd(2020, 0, 1) && !valid_ymd(2020, 4, 31));
}
