//! C03 — a text is a straight-line program: later lines see the latest binding.
//!
//! Oracle: an environment model (name -> value observed when it was bound) and SUBSTITUTION:
//! a line that mentions names must evaluate exactly like the same line with every name replaced by
//! a literal spelling of the model's value, on a session without variables.

use crate::calendar::civil_from_ce;
use crate::common::{eval_session, literal, Cfg, Slot, NT, V};
use crate::engine::{Acc, Ctx, Prop, Verdict, Worker};
use crate::lines::recase;
use crate::vocab::vocab;
use proptest::prelude::*;
use serde::{Deserialize, Serialize};
use std::collections::BTreeMap;

/// one-, two- and three-word names, some a word-prefix of another
/// ... two with non-ASCII letters, two spelled like a month / a zone abbreviation, one containing an operator character
pub const NAMES: [&str; 14] = ["total", "total cost", "total cost net", "rent", "net", "bonus", "ürün", "цена нетто", "may", "west", "tax-rate", "q1", "item 2", "big rent"];

/// a value with an exact literal spelling
#[derive(Clone, Debug, PartialEq)]
pub enum Val {
    Num(f64),
    Pct(f64),
    Money(f64, String),
    Dur(i64),
    /// CE day
    Date(i64),
    /// seconds of day as shown, zone name, offset
    Time(i64, String, i32),
    Unit(f64, String, usize),
    /// bound, but the value cannot be spelled as a literal (not used afterwards)
    Opaque,
}

pub fn val_of(v: &V) -> Val {
    match v {
        V::Num(x, NT::Decimal) if x.is_finite() => Val::Num(*x),
        V::Pct(x) if x.is_finite() => Val::Pct(*x),
        V::Money(x, c) if x.is_finite() => Val::Money(*x, c.clone()),
        V::Dur(s, 0) if s.abs() < (1i64 << 52) => Val::Dur(*s),
        V::Date(ce, z, 0) if z == "UTC" => {
            let (y, _, _) = civil_from_ce(*ce as i64);
            if (1..=9999).contains(&y) {
                Val::Date(*ce as i64)
            } else {
                Val::Opaque
            }
        }
        V::Time(ts, 0, z, off) => {
            // a time carries a hidden calendar day (time arithmetic across midnight moves it); a literal always means
            // today, so only a time of today has an exact literal spelling
            let wall = (ts + *off as i64 * 60).rem_euclid(86400);
            let midnight = chrono::Utc::now().date_naive().and_hms_opt(0, 0, 0).map(|d| d.and_utc().timestamp()).unwrap_or(0);
            if midnight + wall - *off as i64 * 60 == *ts {
                Val::Time(wall, z.clone(), *off)
            } else {
                Val::Opaque
            }
        }
        V::Unit(x, g, i) if x.is_finite() => Val::Unit(*x, g.clone(), *i),
        _ => Val::Opaque,
    }
}

/// the literal spelling of a value under the default configuration
pub fn spell(v: &Val) -> Option<String> {
    let num = |x: f64| literal(x, ",", "", false);
    Some(match v {
        Val::Num(x) => num(*x),
        Val::Pct(x) => format!("{}%", num(*x)),
        Val::Money(x, c) => format!("{} {}", num(*x), c.to_lowercase()),
        Val::Dur(s) => format!("{} seconds", s),
        Val::Date(ce) => {
            let (y, m, d) = civil_from_ce(*ce);
            format!("{}/{}/{}", d, m, y)
        }
        Val::Time(s, z, _) => {
            let t = format!("{}:{:02}:{:02}", s / 3600, (s / 60) % 60, s % 60);
            if z == "UTC" {
                t
            } else {
                format!("{} {}", t, z)
            }
        }
        Val::Unit(x, g, i) => {
            let u = vocab().units.iter().find(|u| u.group == *g && u.index == *i)?;
            format!("{} {}", num(*x), u.parse_names.first()?)
        }
        Val::Opaque => return None,
    })
}

#[derive(Clone, Debug, Serialize, Deserialize)]
pub enum Operand {
    /// name index, case pattern, case bits
    Name(u8, u8, u32),
    /// a literal written out
    Lit(String),
}

#[derive(Clone, Debug, Serialize, Deserialize)]
pub enum Expr {
    One(Operand),
    Bin(Operand, char, Operand),
    /// - X
    Neg(Operand),
    /// n * -X
    ScaleNeg(u8, Operand),
    /// -X <more>   e.g. `-x + 1`, and inside a group `(-x + 1) * 2` (the bool)
    NegThen(Operand, String, bool),
    /// X <suffix words>   e.g. "to try", "as minutes", "+ 1 day"
    Suffix(Operand, String),
    /// <prefix words> X   e.g. "10% of", "5% on"
    Prefix(String, Operand),
}

#[derive(Clone, Debug, Serialize, Deserialize)]
pub enum Stmt {
    /// name (index, case, bits) = expr
    Assign(u8, u8, u32, Expr),
    Use(Expr),
    /// a broken assignment to a name: kind 0 `= 1 +`, 1 `= (`, 2 `=`, 3 `= 2 * 3 usd` (type error), 4 `= ) 5`
    Fail(u8, u8),
    /// a line of garbage
    Garbage(u8),
}

#[derive(Clone, Debug, Serialize, Deserialize)]
pub struct Program {
    pub stmts: Vec<Stmt>,
    /// language tag of the evaluation: 0 en; 1 "fr", 2 "" , 3 "de" - tags without a configuration of their own: fewer
    /// sentences mean something there, but a name is a name under every tag
    #[serde(default)]
    pub lang: u8,
}

pub const GARBAGE: [&str; 6] = ["+ * /", "hello world", "(((", "1 +", "%", "what is this"];

fn name_text(i: u8, cp: u8, bits: u32) -> String {
    recase(NAMES[i as usize % NAMES.len()], cp, bits)
}

type Env = BTreeMap<usize, Val>;

/// render an operand twice: as written in the program, and with the name substituted by its value.
/// None when a referenced name is not bound to a spellable value.
fn operand(o: &Operand, env: &Env) -> Option<(String, String, bool)> {
    match o {
        Operand::Lit(s) => Some((s.clone(), s.clone(), false)),
        Operand::Name(i, cp, bits) => {
            let v = env.get(&(*i as usize % NAMES.len()))?;
            let sp = spell(v)?;
            Some((name_text(*i, *cp, *bits), sp, true))
        }
    }
}

pub const SAFE_DATE_SUFFIX: [&str; 6] = ["+ 1 day", "- 2 weeks", "+ 3 months", "as unix", "at 10:30", "to 1/1/2022"];

/// Is the substitution sound for this sentence? A literal spelling must stay ONE operand when it
/// replaces the name. A date has no atomic literal (d/m/y is three numbers until the very last rule
/// fires), so date-valued names are used only where no earlier rule can grab the year or the day;
/// a sign in front of a date / time / duration literal would become the sign of its first number.
fn sound(e: &Expr, env: &Env) -> bool {
    let val = |o: &Operand| match o {
        Operand::Name(i, ..) => env.get(&(*i as usize % NAMES.len())).cloned(),
        Operand::Lit(_) => None,
    };
    let is_date = |o: &Operand| matches!(val(o), Some(Val::Date(_)));
    // (a sign in front of a NEGATIVE unit literal, `--36 byte`, is not a literal form)
    let signable = |o: &Operand| matches!(val(o), Some(Val::Num(_)) | Some(Val::Pct(_)) | Some(Val::Money(..))) || matches!(val(o), Some(Val::Unit(x, ..)) if x >= 0.0);
    match e {
        // `a / d/m/y` would continue the quotient chain into the date
        Expr::Bin(_, '/', b) => !is_date(b),
        Expr::One(_) | Expr::Bin(..) => true,
        Expr::Neg(o) | Expr::ScaleNeg(_, o) | Expr::NegThen(o, _, _) => signable(o),
        Expr::Suffix(o, w) => !is_date(o) || SAFE_DATE_SUFFIX.contains(&w.as_str()),
        // plain words in front of the operand (`big house + big rent`): they are dropped, which leaves a sentence only
        // in front of a plain number
        Expr::Prefix(w, o) if w.starts_with("big house") || w.starts_with("2 big houses") => matches!(val(o), Some(Val::Num(_))),
        Expr::Prefix(w, o) => !is_date(o) || !(w.ends_with("of") || w.ends_with("on") || w.ends_with("off")),
    }
}

/// (program text, substituted text, mentions a name)
fn expr(e: &Expr, env: &Env) -> Option<(String, String, bool)> {
    if !sound(e, env) {
        return None;
    }
    Some(match e {
        Expr::One(o) => operand(o, env)?,
        Expr::Bin(a, op, b) => {
            let (pa, sa, na) = operand(a, env)?;
            let (pb, sb, nb) = operand(b, env)?;
            (format!("{} {} {}", pa, op, pb), format!("{} {} {}", sa, op, sb), na || nb)
        }
        Expr::Neg(o) => {
            let (p, s, n) = operand(o, env)?;
            (format!("-{}", p), format!("-{}", s), n)
        }
        Expr::ScaleNeg(k, o) => {
            let (p, s, n) = operand(o, env)?;
            (format!("{} * -{}", k, p), format!("{} * -{}", k, s), n)
        }
        Expr::NegThen(o, more, group) => {
            let (p, s, n) = operand(o, env)?;
            if *group {
                (format!("(-{} {}) * 2", p, more), format!("(-{} {}) * 2", s, more), n)
            } else {
                (format!("-{} {}", p, more), format!("-{} {}", s, more), n)
            }
        }
        Expr::Suffix(o, w) => {
            let (p, s, n) = operand(o, env)?;
            (format!("{} {}", p, w), format!("{} {}", s, w), n)
        }
        Expr::Prefix(w, o) => {
            let (p, s, n) = operand(o, env)?;
            (format!("{} {}", w, p), format!("{} {}", w, s), n)
        }
    })
}

/// equality of two slots; times are compared as shown (time of day + zone)
fn equiv(a: &Slot, b: &Slot) -> bool {
    match (a, b) {
        (Slot::Ok { v: V::Time(t1, n1, z1, o1), out: out1 }, Slot::Ok { v: V::Time(t2, n2, z2, o2), out: out2 }) => (t1 + *o1 as i64 * 60).rem_euclid(86400) == (t2 + *o2 as i64 * 60).rem_euclid(86400) && n1 == n2 && z1 == z2 && o1 == o2 && out1 == out2,
        (a, b) => a.same(b),
    }
}

pub struct Programs;

impl Prop for Programs {
    type Case = Program;
    fn name(&self) -> &'static str {
        "programs"
    }
    fn check(&self, w: &mut Worker, p: &Program) -> Verdict {
        let cfg = Cfg::default();
        let lang: &str = ["en", "fr", "", "de"][p.lang as usize % 4];
        let mut env: Env = BTreeMap::new();
        let mut lines: Vec<String> = vec![];
        let mut acc = Acc::new();
        // classes
        let mut bound_count: BTreeMap<usize, u32> = BTreeMap::new();
        let mut used_after_rebind = false;
        let mut fail_between = false;
        let mut pending_fail_for: Option<Vec<usize>> = None;
        let mut copy_then_rebind = false;
        let mut copies: Vec<(usize, usize)> = vec![]; // (target, source)
        let mut prefix_pair_live = false;
        let mut skipped = 0;
        let mut kinds: std::collections::BTreeSet<&'static str> = Default::default();

        for st in &p.stmts {
            // render the statement against the current model
            let (line, subst, is_assign, target, mentions): (String, Option<String>, bool, Option<usize>, bool) = match st {
                Stmt::Assign(i, cp, bits, e) => match expr(e, &env) {
                    Some((pt, sb, m)) => (format!("{} = {}", name_text(*i, *cp, *bits), pt), Some(sb), true, Some(*i as usize % NAMES.len()), m),
                    None => {
                        skipped += 1;
                        continue;
                    }
                },
                Stmt::Use(e) => match expr(e, &env) {
                    Some((pt, sb, m)) => {
                        if !m {
                            skipped += 1;
                            continue;
                        }
                        (pt, Some(sb), false, None, m)
                    }
                    None => {
                        skipped += 1;
                        continue;
                    }
                },
                Stmt::Fail(i, k) => {
                    let idx = *i as usize % NAMES.len();
                    if !env.contains_key(&idx) {
                        // the statement only speaks about existing bindings
                        skipped += 1;
                        continue;
                    }
                    let rhs = ["1 +", "(", "", "2 * 3 usd", ") 5"][*k as usize % 5];
                    (format!("{} = {}", NAMES[idx], rhs), None, true, Some(idx), false)
                }
                Stmt::Garbage(k) => (GARBAGE[*k as usize % GARBAGE.len()].to_string(), None, false, None, false),
            };
            lines.push(line.clone());
            let text = lines.join("\n");
            let out = match w.eval(&cfg, lang, &text) {
                Ok(o) => o,
                Err(pn) => {
                    acc.fail(format!("panic at {}: {}", pn.site, pn.message));
                    break;
                }
            };
            if !out.status || out.slots.len() != lines.len() {
                acc.fail(format!("status={} slots={} for {} lines", out.status, out.slots.len(), lines.len()));
                break;
            }
            let observed = out.slots.last().unwrap().clone();
            match (&subst, st) {
                (Some(sb), _) => {
                    // substitution oracle
                    let expected = match w.eval1(&cfg, lang, sb) {
                        Ok(s) => s,
                        Err(e) => {
                            acc.fail(format!("substituted line {:?}: {}", sb, e));
                            break;
                        }
                    };
                    // under a tag without a configuration only sentences of numbers, percentages and operators mean
                    // something (no zone, unit, currency or phrase rule exists there): the others are not compared
                    let comparable = lang == "en" || sb.split('=').last().unwrap_or("").chars().all(|ch| ch.is_ascii_digit() || " ,.+-*/()%".contains(ch));
                    if comparable && !equiv(&observed, &expected) {
                        acc.fail(format!("line {} {:?} gives {} but with the names replaced by their values ({:?}) it gives {}{}", lines.len(), line, observed.brief(), sb, expected.brief(), if lang == "en" { String::new() } else { format!(" [language tag {:?}]", lang) }));
                        break;
                    }
                }
                (None, Stmt::Fail(..)) => {
                    if matches!(observed, Slot::Ok { .. }) {
                        // not a failing line after all: treat it as an assignment of what was observed
                    }
                }
                _ => {}
            }
            // update the model
            let failed = !matches!(observed, Slot::Ok { .. });
            if is_assign {
                let t = target.unwrap();
                if let Slot::Ok { v, .. } = &observed {
                    let val = val_of(v);
                    kinds.insert(match &val {
                        Val::Num(_) => "value:number",
                        Val::Pct(_) => "value:percent",
                        Val::Money(..) => "value:money",
                        Val::Dur(_) => "value:duration",
                        Val::Date(_) => "value:date",
                        Val::Time(..) => "value:time",
                        Val::Unit(..) => "value:unit",
                        Val::Opaque => "value:opaque",
                    });
                    *bound_count.entry(t).or_default() += 1;
                    // copy taken before a re-binding of its source?
                    if copies.iter().any(|(_, src)| *src == t) {
                        copy_then_rebind = true;
                    }
                    if let Stmt::Assign(_, _, _, Expr::One(Operand::Name(src, ..))) = st {
                        copies.push((t, *src as usize % NAMES.len()));
                    }
                    env.insert(t, val);
                }
            }
            if failed && !env.is_empty() {
                pending_fail_for = Some(env.keys().cloned().collect());
            }
            if !is_assign && mentions && !failed {
                if let Some(names) = &pending_fail_for {
                    if !names.is_empty() {
                        fail_between = true;
                    }
                }
                if bound_count.values().any(|c| *c >= 2) {
                    used_after_rebind = true;
                }
            }
            if env.contains_key(&0) && env.contains_key(&1) || env.contains_key(&1) && env.contains_key(&2) {
                prefix_pair_live = true;
            }
        }
        let text = lines.join("\n");
        // the same program line by line through one re-used session must give the same slots
        if acc.ok() && !lines.is_empty() {
            let whole = w.eval(&cfg, lang, &text);
            let calc = w.calcs.get(&cfg);
            let mut session = smartcalc::Session::new();
            let mut via_session = vec![];
            let mut broke = None;
            for l in &lines {
                match eval_session(calc, &mut session, lang, l) {
                    Ok(o) => {
                        if !o.status || o.slots.len() != 1 {
                            broke = Some(format!("re-used session: line {:?} gives status={} slots={}", l, o.status, o.slots.len()));
                            break;
                        }
                        via_session.push(o.slots[0].clone());
                    }
                    Err(pn) => {
                        broke = Some(format!("re-used session: panic at {}: {}", pn.site, pn.message));
                        break;
                    }
                }
            }
            w.count_eval(lines.len() as u64);
            if let Some(b) = broke {
                acc.fail(b);
            } else if let Ok(o) = whole {
                for (i, (a, b)) in o.slots.iter().zip(via_session.iter()).enumerate() {
                    if !equiv(a, b) {
                        acc.fail(format!("line {} {:?}: {} in the multi-line text but {} through the re-used session", i + 1, lines[i], a.brief(), b.brief()));
                        break;
                    }
                }
            }
        }
        let nt = used_after_rebind || fail_between || copy_then_rebind || prefix_pair_live;
        let mut v = acc.finish(text.replace('\n', " ; ")).nt(nt).class_if(used_after_rebind, "rebound-then-used").class_if(fail_between, "failing-line-between-binding-and-use").class_if(copy_then_rebind, "copy-then-source-rebound").class_if(prefix_pair_live, "prefix-names-both-live").class_if(skipped > 0, "some-statements-skipped(unbound-name)").class_if(lines.len() >= 8, "eight-or-more-lines").class_if(lang != "en", "language-tag-without-a-configuration");
        for k in kinds {
            v = v.class(k);
        }
        v
    }
}

// ---- strategies --------------------------------------------------------------------------------

pub fn literal_strategy() -> impl Strategy<Value = String> {
    prop_oneof![
        4 => prop::sample::select(vec!["5", "12", "0", "2,5", "100", "-3", "1000", "0,1", "7", "250"]).prop_map(|s| s.to_string()),
        2 => prop::sample::select(vec!["10%", "50%", "-5%", "%25", "0%", "12,5%"]).prop_map(|s| s.to_string()),
        3 => prop::sample::select(vec!["10 usd", "$25", "100 try", "7,5 eur", "20 gbp", "1k usd", "-4 usd", "300 jpy"]).prop_map(|s| s.to_string()),
        2 => prop::sample::select(vec!["90 seconds", "2 hours", "3 days", "1 week", "45 minutes", "1 hour 30 minutes", "2 months", "1 year"]).prop_map(|s| s.to_string()),
        2 => prop::sample::select(vec!["12/12/2020", "1 jan 2021", "28 feb 2019", "31/12/1999", "15 mar 2021"]).prop_map(|s| s.to_string()),
        2 => prop::sample::select(vec!["10:30", "23:15:10", "3 pm", "0:05", "10:30 EST", "8:00 CET"]).prop_map(|s| s.to_string()),
        2 => prop::sample::select(vec!["5 kg", "3 km", "10 inch", "2 GB", "500 g", "1 mile", "64 byte"]).prop_map(|s| s.to_string()),
    ]
}

pub fn operand_strategy(name_weight: u32) -> impl Strategy<Value = Operand> {
    prop_oneof![
        name_weight => (0u8..14, 0u8..5, any::<u32>()).prop_map(|(i, c, b)| Operand::Name(i, c, b)),
        2 => literal_strategy().prop_map(Operand::Lit),
    ]
}

pub fn expr_strategy() -> impl Strategy<Value = Expr> {
    let op = prop::sample::select(vec!['+', '-', '*', '/']);
    let suffix = prop::sample::select(vec![
        "to try", "to usd", "in eur", "into gbp", "+ 1 day", "- 2 weeks", "+ 3 months", "to EST", "to CET", "to lb", "to m", "in cm", "to mb", "as minutes", "as hours", "to seconds", "as unix", "to hex", "to binary", "on 10%", "off 25%", "of 50%", "+ 10%", "- 5%", "+ 2 hours",
        "- 30 minutes", "* 2", "/ 4", "to date", "is what % of 80", "is 10% of what", "at 10:30", "to 1/1/2022",
    ])
    .prop_map(|s| s.to_string());
    let prefix = prop::sample::select(vec!["10% of", "5% on", "20% off", "2 *", "100 +", "1000 -", "12/12/2020 +", "10:30 +", "$50 +", "10 km +", "12/12/2020 at", "1 jan 2021 at", "big house +", "2 big houses *"]).prop_map(|s| s.to_string());
    prop_oneof![
        3 => operand_strategy(5).prop_map(Expr::One),
        5 => (operand_strategy(5), op, operand_strategy(3)).prop_map(|(a, o, b)| Expr::Bin(a, o, b)),
        1 => operand_strategy(8).prop_map(Expr::Neg),
        1 => (2u8..9, operand_strategy(8)).prop_map(|(k, o)| Expr::ScaleNeg(k, o)),
        1 => (operand_strategy(8), prop::sample::select(vec!["+ 1", "* 2", "+ 250", "- 3", "/ 4"]), prop::bool::weighted(0.3)).prop_map(|(o, m, g)| Expr::NegThen(o, m.to_string(), g)),
        4 => (operand_strategy(8), suffix).prop_map(|(o, s)| Expr::Suffix(o, s)),
        2 => (prefix, operand_strategy(8)).prop_map(|(p, o)| Expr::Prefix(p, o)),
    ]
}

pub fn stmt_strategy() -> impl Strategy<Value = Stmt> {
    prop_oneof![
        6 => (0u8..14, 0u8..5, any::<u32>(), prop_oneof![3 => literal_strategy().prop_map(|l| Expr::One(Operand::Lit(l))), 4 => expr_strategy()]).prop_map(|(i, c, b, e)| Stmt::Assign(i, c, b, e)),
        // copies (value, not reference): a later re-binding of the source must not show through
        2 => (0u8..14, 0u8..14, 0u8..5, any::<u32>()).prop_map(|(i, j, c, b)| Stmt::Assign(i, c.wrapping_add(1), b.rotate_left(7), Expr::One(Operand::Name(j, c, b)))),
        2 => (0u8..14, 0u8..5, any::<u32>()).prop_map(|(i, c, b)| Stmt::Use(Expr::One(Operand::Name(i, c, b)))),
        // a name re-bound to a value that differs from its current one by less than the printer shows
        // (`x = x + 0,004`): the new value is the binding, however alike the two print
        2 => (0u8..14, 0u8..5, any::<u32>(), prop::sample::select(vec!["+ 0,004", "* 1,0001", "- 0,0003", "+ 0,004 usd", "+ 1 g", "+ 0,3%"])).prop_map(|(i, c, b, s)| Stmt::Assign(i, c, b, Expr::Suffix(Operand::Name(i, c, b), s.to_string()))),
        7 => expr_strategy().prop_map(Stmt::Use),
        2 => (0u8..14, 0u8..5).prop_map(|(i, k)| Stmt::Fail(i, k)),
        1 => (0u8..6).prop_map(Stmt::Garbage),
    ]
}

pub fn program_strategy(max: usize) -> impl Strategy<Value = Program> {
    (program_strategy_en(max), prop_oneof![9 => Just(0u8), 1 => 1u8..4]).prop_map(|(mut p, lang)| {
        p.lang = lang;
        p
    })
}

fn program_strategy_en(max: usize) -> impl Strategy<Value = Program> {
    // start with a few plain assignments so that names are bound early
    (prop::collection::vec((0u8..14, 0u8..5, any::<u32>(), literal_strategy()), 1..4), prop::collection::vec(stmt_strategy(), 2..max)).prop_map(|(init, rest)| {
        let mut stmts: Vec<Stmt> = init.into_iter().map(|(i, c, b, l)| Stmt::Assign(i, c, b, Expr::One(Operand::Lit(l)))).collect();
        stmts.extend(rest);
        Program { stmts, lang: 0 }
    })
}

pub fn regressions() -> Vec<Program> {
    let n = |i: u8| Operand::Name(i, 0, 0);
    let lit = |s: &str| Operand::Lit(s.to_string());
    let asg = |i: u8, e: Expr| Stmt::Assign(i, 0, 0, e);
    vec![
        // F30: du = 90 seconds ; du as minutes
        Program { stmts: vec![asg(3, Expr::One(lit("90 seconds"))), Stmt::Use(Expr::Suffix(n(3), "as minutes".into()))], lang: 0 },
        // leading sign on a money variable
        Program { stmts: vec![asg(3, Expr::One(lit("10 usd"))), Stmt::Use(Expr::Neg(n(3))), Stmt::Use(Expr::ScaleNeg(3, n(3)))], lang: 0 },
        // value, not reference
        Program { stmts: vec![asg(5, Expr::One(lit("3"))), asg(4, Expr::One(n(5))), asg(5, Expr::One(lit("4"))), Stmt::Use(Expr::One(n(4))), Stmt::Use(Expr::One(n(5)))], lang: 0 },
        // failing lines leave the binding
        Program { stmts: vec![asg(0, Expr::One(lit("5"))), Stmt::Fail(0, 0), Stmt::Use(Expr::One(n(0))), Stmt::Fail(0, 1), Stmt::Use(Expr::One(n(0))), Stmt::Fail(0, 2), Stmt::Use(Expr::One(n(0))), Stmt::Fail(0, 3), Stmt::Use(Expr::One(n(0)))], lang: 0 },
        // longest match
        Program { stmts: vec![asg(0, Expr::One(lit("5"))), asg(1, Expr::One(lit("7"))), asg(2, Expr::One(lit("3"))), Stmt::Use(Expr::Bin(n(2), '+', n(1))), Stmt::Use(Expr::Bin(n(1), '+', n(0))), Stmt::Use(Expr::Bin(n(0), '*', n(2)))], lang: 0 },
        // a time moved past midnight by arithmetic carries tomorrow's date: it has no literal spelling (false alarm of an earlier version of this check)
        Program { stmts: vec![asg(7, Expr::One(lit("10:30"))), asg(0, Expr::One(lit("23:15:10"))), asg(1, Expr::Bin(n(7), '+', n(0))), Stmt::Use(Expr::Suffix(n(1), "as unix".into()))], lang: 0 },
        // self reference
        Program { stmts: vec![asg(3, Expr::One(lit("1"))), asg(3, Expr::Bin(n(3), '+', lit("1"))), asg(3, Expr::Bin(n(3), '*', n(3))), Stmt::Use(Expr::One(n(3)))], lang: 0 },
    ]
}

// ---- a line that fails leaves no trace -----------------------------------------------------------

/// a free-form script: assignments (valid, failing in the parser, failing in the interpreter) and uses over
/// names that contain each other as words - bound or not
#[derive(Clone, Debug, Serialize, Deserialize)]
pub struct Script {
    pub lines: Vec<String>,
}

pub struct NoTrace;

impl Prop for NoTrace {
    type Case = Script;
    fn name(&self) -> &'static str {
        "failed-lines-leave-no-trace"
    }
    fn check(&self, w: &mut Worker, c: &Script) -> Verdict {
        let cfg = Cfg::default();
        let text = c.lines.join("\n");
        let rendered = text.replace('\n', " ; ");
        let full = match w.eval(&cfg, "en", &text) {
            Ok(o) => o,
            Err(p) => return Verdict::fail(format!("panic at {}: {}", p.site, p.message), rendered),
        };
        if full.slots.len() != c.lines.len() {
            return Verdict::fail(format!("{} slots for {} lines", full.slots.len(), c.lines.len()), rendered);
        }
        let failed: Vec<usize> = full.slots.iter().enumerate().filter(|(_, s)| matches!(s, Slot::Err(_))).map(|(i, _)| i).collect();
        let mut acc = Acc::new();
        let mut failed_assignment_then_mention = false;
        if !failed.is_empty() {
            // remove ONE failing line at a time: every other line - whether it evaluates or fails - must give
            // exactly what it gave before (a line that only failed because of what an earlier failing line left
            // behind would now evaluate)
            'outer: for f in &failed {
                let kept: Vec<usize> = (0..c.lines.len()).filter(|i| i != f).collect();
                if kept.is_empty() {
                    continue;
                }
                let clean_text = kept.iter().map(|i| c.lines[*i].clone()).collect::<Vec<_>>().join("\n");
                let clean = match w.eval(&cfg, "en", &clean_text) {
                    Ok(o) => o,
                    Err(p) => return Verdict::fail(format!("panic at {}: {}", p.site, p.message), rendered),
                };
                if clean.slots.len() != kept.len() {
                    return Verdict::fail(format!("{} slots for {} kept lines", clean.slots.len(), kept.len()), rendered);
                }
                for (k, i) in kept.iter().enumerate() {
                    if !full.slots[*i].same(&clean.slots[k]) {
                        acc.fail(format!("line {} {:?} gives {}, but in the same program without the failing line {} {:?} it gives {}", i + 1, c.lines[*i], full.slots[*i].brief(), f + 1, c.lines[*f], clean.slots[k].brief()));
                        break 'outer;
                    }
                }
            }
            for f in &failed {
                if let Some((lhs, _)) = c.lines[*f].split_once('=') {
                    let lhs = lhs.trim().to_lowercase();
                    let last_word = lhs.split(' ').last().unwrap_or("").to_string();
                    if !lhs.is_empty() && c.lines[*f + 1..].iter().any(|l| l.to_lowercase().contains(&last_word)) {
                        failed_assignment_then_mention = true;
                    }
                }
            }
        }
        acc.finish(rendered).nt(failed_assignment_then_mention).class_if(!failed.is_empty(), "has-failing-lines").class_if(failed_assignment_then_mention, "failed-assignment-then-the-name-is-mentioned")
    }
}

pub fn script_strategy() -> impl Strategy<Value = Script> {
    let names = prop::sample::select(vec!["rent", "big rent", "rent total", "total", "total cost", "total cost net", "x", "my", "my age"]);
    let good = prop::sample::select(vec!["5", "7,5", "10 usd", "3 kg", "2 hours", "12/12/2020", "10%", "11:30", "0x10", "1 day 3 hours"]);
    let bad_rhs = prop::sample::select(vec!["1 +", "(", "", ") 5", "(2 * 3", "10 + 1 hour", "2 * 3 usd", "11:30 * 11:30", "5 - 12:30", "10 km * 2 kg", "1 day + 5"]);
    let tail = prop::sample::select(vec!["", " * 2", " + 1", " to try", " as minutes", " to lb", " hours", " to EST", " + 10%"]);
    let line = (0u8..12, names.clone(), names, good.clone(), good, bad_rhs, tail, 0u8..5).prop_map(|(k, n, m, a, b, bad, tail, cp)| {
        let n = recase(n, cp, 0x5a5a);
        match k {
            0 | 1 | 2 => format!("{} = {}", n, a),
            3 | 4 => format!("{} = {}", n, bad),
            5 => format!("{} = {} + {}", n, m, b),
            6 => format!("{} = {}{}", n, m, tail),
            7 | 8 => format!("{}{}", n, tail),
            9 => format!("{} + {}", a, n),
            10 => format!("{} {}", n, m),
            _ => format!("-{}", n),
        }
    });
    prop::collection::vec(line, 2..9).prop_map(|lines| Script { lines })
}

pub fn script_regressions() -> Vec<Script> {
    let s = |l: &[&str]| Script { lines: l.iter().map(|x| x.to_string()).collect() };
    vec![
        // F32: a first assignment that fails in the interpreter left an empty name behind that hid `rent`
        s(&["rent = 5", "big rent = 10 + 1 hour", "big rent * 2"]),
        s(&["x = 10 + 1 hour", "x", "3 x"]),
        s(&["rent = 5", "rent total = 2 * 3 usd", "rent total", "rent"]),
        s(&["my = 2", "my age = 1 +", "my age hours"]),
    ]
}

pub fn run(ctx: &Ctx) {
    ctx.rule("generated straight-line programs of up to 14 statements over 11 names (one-, two- and three-word, word-prefixes of each other: total / total cost / total cost net; two with non-ASCII letters whose case mapping is one-to-one: ürün, цена нетто; two that are also a month and a zone word: may, west; one containing an operator character: tax-rate), names written in random letter case at every occurrence: assignments of literals of seven kinds (number, percent, money, duration, date, time, unit quantity), copies, arithmetic incl. self-reference, uses (name alone, name op operand, -name, n * -name, conversion / percentage / date / zone / unit / duration / unix / base sentences), broken assignments to existing names (= 1 +, = (, =, type error) and garbage lines; a tenth of the programs under a language tag without a configuration (fr, de, the empty tag: arithmetic lines are compared there); a signed name followed by more (-x + 1, (-x + 1) * 2); names re-bound to a value that differs from the current one by less than the printer shows (x = x + 0,004); oracle: environment model holding the value OBSERVED at the binding, and substitution: each line must evaluate exactly like the same line with every name replaced by a literal spelling of the model's value on a variable-free session; the whole program is also run line by line through one re-used Session and must give the same slots; second sub-check (free-form scripts over names that contain each other as words, with assignments failing in the parser or in the interpreter - also first-time assignments): with any ONE failing line removed, every other line - evaluating or failing - gives exactly what it gave before; non-trivial = a name bound twice and used afterwards, a failing line between a binding and a use, a copy whose source is re-bound, two prefix-related names live");
    ctx.assume("a name is used only after the model has a spellable binding for it (statements that would mention an unbound or unspellable name are skipped and counted)");
    ctx.run_table(&Programs, "regressions", regressions(), false);
    let max = match ctx.tier {
        crate::engine::Tier::Quick => 12,
        crate::engine::Tier::Thorough => 14,
    };
    ctx.run_generated(&Programs, ctx.tier.pick(30_000, 300_000), || program_strategy(max));
    ctx.run_table(&NoTrace, "regressions", script_regressions(), false);
    ctx.run_generated(&NoTrace, ctx.tier.pick(60_000, 600_000), script_strategy);
}

pub fn replay(w: &mut Worker, sub: &str, case: &serde_json::Value) -> Option<Verdict> {
    match sub {
        "programs" => crate::engine::replay_case(&Programs, w, case),
        "failed-lines-leave-no-trace" => crate::engine::replay_case(&NoTrace, w, case),
        _ => None,
    }
}
