//! C16 — blanks, comments and letter case of keywords never change a value.

use crate::common::Slot;
use crate::engine::{Acc, Ctx, Prop, Verdict, Worker};
use crate::lines::{recase, Class, Line};
use crate::mixed::{any_line, GenLine};
use crate::vocab::vocab;
use proptest::prelude::*;
use serde::{Deserialize, Serialize};

#[derive(Clone, Debug, Serialize, Deserialize)]
pub struct Rewrite {
    /// extra blanks before token i of the LAST line (and one more entry for the end of the line)
    pub extra: Vec<u8>,
    /// comment appended to the last line (without the leading '#')
    pub comment: Option<String>,
    /// case pattern per keyword token: (pattern, bits), applied in order to the tokens of the classes
    /// currency / money-code / month / zone / connective / variable, over ALL lines
    pub cases: Vec<(u8, u32)>,
    /// extra blanks added where a money literal already has a blank between the amount and its currency word or sign
    #[serde(default)]
    pub inner: u8,
    /// the '#' of the appended comment is glued to the last token (`3 march# note`)
    #[serde(default)]
    pub glue_comment: bool,
}

/// widen the blank run between the amount of a money literal and its currency (`10k usd`, `5 $`)
fn widen_money_gaps(l: &mut Line, inner: u8) -> bool {
    let mut changed = false;
    if inner == 0 {
        return false;
    }
    for t in l.toks.iter_mut() {
        if t.class == Class::Money {
            if let Some(i) = t.post.find(' ') {
                t.post.insert_str(i, &" ".repeat(inner as usize));
                changed = true;
            }
        }
    }
    changed
}

#[derive(Clone, Debug, Serialize, Deserialize)]
pub struct Case {
    pub g: GenLine,
    pub rw: Rewrite,
}

/// apply a case pattern to the alphabetic parts only
fn recase_letters(s: &str, cp: u8, bits: u32) -> String {
    // split into runs of alphabetic / other characters
    let mut out = String::new();
    let mut run = String::new();
    for ch in s.chars() {
        if ch.is_alphabetic() {
            run.push(ch);
        } else {
            if !run.is_empty() {
                out.push_str(&recase(&run, cp, bits));
                run.clear();
            }
            out.push(ch);
        }
    }
    if !run.is_empty() {
        out.push_str(&recase(&run, cp, bits));
    }
    out
}

/// rewrite the letter case of the keyword classes the statement names
pub fn recase_line(l: &Line, cases: &mut std::slice::Iter<(u8, u32)>, changed: &mut bool) -> Line {
    let mut out = l.clone();
    for t in out.toks.iter_mut() {
        let applies = match t.class {
            Class::Currency | Class::Month | Class::Zone | Class::Conn | Class::Var => true,
            // the currency code / alias written inside a money literal (`10 usd`): letters of the suffix,
            // but never a magnitude suffix (k, M are case-sensitive)
            Class::Money => t.post.chars().filter(|c| c.is_alphabetic()).count() >= 2,
            _ => false,
        };
        if !applies {
            continue;
        }
        let (cp, bits) = cases.next().copied().unwrap_or((0, 0));
        if t.class == Class::Money {
            // keep a leading magnitude suffix as it is: "k usd" -> "k USD"
            let post = t.post.clone();
            let (head, tail) = match post.find(' ') {
                Some(i) if i <= 1 => (post[..i].to_string(), post[i..].to_string()),
                _ if post.chars().next().map_or(false, |c| "kKMGTPZY".contains(c)) && post.chars().nth(1).map_or(true, |c| !c.is_alphabetic()) => (post[..1].to_string(), post[1..].to_string()),
                _ => (String::new(), post.clone()),
            };
            let new = format!("{}{}", head, recase_letters(&tail, cp, bits));
            if new != t.post {
                *changed = true;
            }
            t.post = new;
        } else if t.class == Class::Zone && t.pre.starts_with("GMT") {
            // GMT+h forms: the letters only
            let new = recase_letters(&t.pre, cp, bits);
            if new != t.pre {
                *changed = true;
            }
            t.pre = new;
        } else {
            let new = recase_letters(&t.pre, cp, bits);
            if new != t.pre {
                *changed = true;
            }
            t.pre = new;
        }
    }
    out
}

pub struct Noise;

impl Prop for Noise {
    type Case = Case;
    fn name(&self) -> &'static str {
        "noise"
    }
    fn check(&self, w: &mut Worker, c: &Case) -> Verdict {
        let cfg = c.g.cfg(",", ".");
        let base_text = c.g.text(",", ".");
        // the rewritten text
        let mut it = c.rw.cases.iter();
        let mut case_changed = false;
        let mut money_gap = false;
        let mut lines: Vec<String> = vec![];
        let all = c.g.all_lines();
        for (i, l) in all.iter().enumerate() {
            let mut rl = recase_line(l, &mut it, &mut case_changed);
            money_gap |= widen_money_gaps(&mut rl, c.rw.inner);
            if i + 1 == all.len() {
                let mut s = rl.render_spaced(",", ".", &c.rw.extra);
                if let Some(cm) = &c.rw.comment {
                    // (one rewriting in four glues the '#' to the last token: `3 march# note`)
                    s.push_str(if c.rw.glue_comment { "#" } else { " #" });
                    s.push_str(cm);
                }
                lines.push(s);
            } else {
                lines.push(rl.render(",", "."));
            }
        }
        let new_text = lines.join("\n");
        let rendered = format!("[{} {}] {:?}  ->  {:?}", c.g.src, c.g.lang, base_text, new_text);
        let today0 = chrono::Utc::now().date_naive();
        let a = match w.eval(&cfg, &c.g.lang, &base_text) {
            Ok(o) => o,
            Err(p) => return Verdict::fail(format!("panic at {}: {}", p.site, p.message), rendered),
        };
        let b = match w.eval(&cfg, &c.g.lang, &new_text) {
            Ok(o) => o,
            Err(p) => return Verdict::fail(format!("panic at {}: {}", p.site, p.message), rendered),
        };
        let mut acc = Acc::new();
        let base_ok = matches!(a.slots.last(), Some(Slot::Ok { .. }));
        if a.slots.len() != b.slots.len() {
            acc.fail(format!("{} slots vs {}", a.slots.len(), b.slots.len()));
        } else if base_ok {
            // the statement is about lines that evaluate to a value
            for (i, (x, y)) in a.slots.iter().zip(b.slots.iter()).enumerate() {
                let same = match (x, y) {
                    (Slot::Ok { v: vx, .. }, Slot::Ok { v: vy, .. }) => vx.same(vy),
                    (Slot::Ok { .. }, _) => false,
                    _ => true,
                };
                if !same {
                    if chrono::Utc::now().date_naive() != today0 {
                        return Verdict::skip("date changed during the case", rendered);
                    }
                    acc.fail(format!("line {}: {} became {}", i + 1, x.brief(), y.brief()));
                    break;
                }
            }
        }
        let blanks_inside = c.rw.extra.iter().take(c.g.line.toks.len()).skip(1).any(|e| *e > 0);
        let vocab_comment = c.rw.comment.as_ref().map_or(false, |cm| cm.chars().any(|ch| ch.is_alphanumeric()));
        acc.finish(rendered)
            .nt(base_ok && (blanks_inside || case_changed || vocab_comment || money_gap))
            .class_if(money_gap, "blanks-between-amount-and-currency")
            .class_if(base_ok, "base-evaluates")
            .class_if(blanks_inside, "blanks-between-tokens")
            .class_if(c.rw.extra.first().map_or(false, |e| *e > 0), "leading-blanks")
            .class_if(c.rw.comment.is_some(), "comment-appended")
            .class_if(vocab_comment, "comment-with-vocabulary")
            .class_if(case_changed, "keyword-case-changed")
            .class_if(c.g.lang == "tr", "lang:tr")
            .class_if(!c.g.prelude.is_empty(), "variable-definition-and-use")
    }
}

// ---- blank-only / comment-only lines ------------------------------------------------------------

#[derive(Clone, Debug, Serialize, Deserialize)]
pub struct Empty {
    pub blanks: u8,
    pub comment: Option<String>,
    pub lang: String,
}

pub struct EmptyLines;

impl Prop for EmptyLines {
    type Case = Empty;
    fn name(&self) -> &'static str {
        "blank-or-comment-only"
    }
    fn check(&self, w: &mut Worker, c: &Empty) -> Verdict {
        let mut line = " ".repeat(c.blanks as usize);
        if let Some(cm) = &c.comment {
            line.push('#');
            line.push_str(cm);
        }
        let rendered = format!("[{}] {:?}", c.lang, line);
        let slot = match w.eval1(&crate::common::Cfg::default(), &c.lang, &line) {
            Ok(s) => s,
            Err(e) => return Verdict::fail(e, rendered),
        };
        let mut acc = Acc::new();
        if !matches!(slot, Slot::Nothing) {
            acc.fail(format!("a line of blanks and/or a comment evaluates to {}", slot.brief()));
        }
        acc.finish(rendered).nt(c.comment.as_ref().map_or(false, |cm| cm.chars().any(|ch| ch.is_alphanumeric()))).class_if(c.comment.is_some(), "comment-only").class_if(c.comment.is_none(), "blank-only")
    }
}

// ---- strategies --------------------------------------------------------------------------------

pub fn comment_strategy() -> impl Strategy<Value = String> {
    let words: Vec<String> = {
        let v = vocab();
        let mut w: Vec<String> = vec![
            "5", "10", "2020", "1,5", "=", "+", "-", "*", "/", "(", ")", "%", "10%", "$5", "usd", "try", "eur", "EST", "CET", "GMT+3", "UTC", "to", "of", "on", "off", "as", "in", "at", "is", "what", "today", "tomorrow", "day", "days", "week", "hours", "kg", "km", "inch", "x",
            "total", "x = 5", "[NUMBER:5]", "[OPERATOR:+]", "{NUMBER:n}", "#", "##", "10:30", "3 pm", "12/12/2020", "hex", "unix", "date", "0x10", "bugün", "gün", "şubat", "arası", "İ", "ı", "ß", "日本", "😀", "é",
        ]
        .iter()
        .map(|s| s.to_string())
        .collect();
        for l in v.langs.values() {
            w.extend(l.long_months.keys().cloned());
            w.extend(l.short_months.keys().cloned());
        }
        w
    };
    let n = words.len();
    let vocab_part = prop::collection::vec((0..n, any::<bool>()), 0..8).prop_map(move |v| {
        let mut s = String::new();
        for (i, sp) in v {
            s.push_str(&words[i]);
            if sp {
                s.push(' ');
            }
        }
        s
    });
    let printable = prop::collection::vec(prop_oneof![4 => prop::char::range(' ', '~'), 1 => any::<char>().prop_filter("printable, no line break", |c| !c.is_control())], 0..30).prop_map(|v| v.into_iter().collect::<String>());
    prop_oneof![3 => vocab_part, 2 => printable, 1 => Just(String::new())]
}

pub fn rewrite_strategy() -> impl Strategy<Value = Rewrite> {
    (
        prop::collection::vec(prop_oneof![5 => Just(0u8), 3 => 1u8..=2, 1 => 3u8..=5], 0..40),
        prop::option::weighted(0.5, comment_strategy()),
        prop::collection::vec((0u8..5, any::<u32>()), 0..24),
        prop_oneof![2 => Just(0u8), 2 => 1u8..=2, 1 => 3u8..=6],
        prop::bool::weighted(0.25),
    )
        .prop_map(|(extra, comment, cases, inner, glue_comment)| Rewrite { extra, comment, cases, inner, glue_comment })
}

/// lines with EVERY zone key of the table written as configured - also the ones the zone syntax cannot express
/// (five letters, mixed case such as ChST): whatever such a word means, its letter case must not matter
pub fn any_zone_key_line() -> impl Strategy<Value = GenLine> {
    use crate::lines::Tok;
    let keys: Vec<String> = vocab().zones.keys().cloned().collect();
    (prop::sample::select(keys), 0u8..3, prop::sample::select(vec!["15:00", "3:00 pm", "0:30", "23:59:59"])).prop_map(|(z, form, t)| {
        let mut l = Line::default();
        l.push(Tok::word(t, Class::Time));
        match form {
            0 => l.push(Tok::word(&z, Class::Zone)),
            1 => {
                l.push(Tok::word("UTC", Class::Zone));
                l.push(Tok::word("to", Class::Conn));
                l.push(Tok::word(&z, Class::Zone));
            }
            _ => {
                l.push(Tok::word(&z, Class::Zone));
                l.push(Tok::word("to", Class::Conn));
                l.push(Tok::word("CET", Class::Zone));
            }
        }
        GenLine { prelude: vec![], line: l, lang: "en".into(), tz: None, src: "C11".into() }
    })
}

/// a connective directly after a number (`255 in hex`, `20 as usd`): whatever such a line means (`in` after a number is
/// also the inch), the letter case of the connective must not change it
pub fn connective_after_number_line() -> impl Strategy<Value = GenLine> {
    use crate::lines::{NumLit, Tok};
    (0u32..100_000, prop::sample::select(vec!["in", "to", "as", "into", "at", "of", "on", "off"]), prop::sample::select(vec!["hex", "binary", "octal", "decimal", "date", "usd", "try", "EST", "cm", "mb", "seconds", "unix", "10%", "5"])).prop_map(|(n, conn, target)| {
        let t = Tok { pre: target.to_string(), num: None, post: String::new(), class: Class::Other, space: 1 };
        GenLine::simple(Line::new(vec![Tok::num(NumLit::new(n as f64)), Tok::word(conn, Class::Conn), t]), "C16")
    })
}

pub fn case_strategy() -> impl Strategy<Value = Case> {
    (prop_oneof![12 => any_line().boxed(), 1 => any_zone_key_line().boxed(), 1 => connective_after_number_line().boxed()], rewrite_strategy()).prop_map(|(g, rw)| Case { g, rw })
}

pub fn empty_strategy() -> impl Strategy<Value = Empty> {
    (0u8..12, prop::option::weighted(0.7, comment_strategy()), prop::sample::select(vec!["en", "tr"])).prop_map(|(blanks, comment, lang)| Empty { blanks: if comment.is_none() { blanks.max(1) } else { blanks }, comment, lang: lang.to_string() })
}

pub fn regressions() -> Vec<Case> {
    use crate::lines::{NumLit, Tok};
    // F120: a month name inside a comment
    let five = GenLine::simple(Line::new(vec![Tok::num(NumLit::new(5.0))]), "C02");
    let date = GenLine { prelude: vec![], line: Line::new(vec![Tok::num(NumLit::new(12.0)), Tok::word("feb", Class::Month), Tok::num(NumLit::new(2020.0))]), lang: "en".into(), tz: None, src: "C09".into() };
    vec![
        Case { g: five.clone(), rw: Rewrite { extra: vec![], comment: Some(" jan 2020".into()), cases: vec![], inner: 0, glue_comment: false } },
        Case { g: five, rw: Rewrite { extra: vec![2, 0, 3], comment: Some("x = 2 usd EST 10:30 [NUMBER:1]".into()), cases: vec![], inner: 0, glue_comment: false } },
        Case { g: date, rw: Rewrite { extra: vec![1, 2, 3, 4], comment: Some(" mar".into()), cases: vec![(1, 0)], inner: 0, glue_comment: false } },
    ]
}

pub fn run(ctx: &Ctx) {
    ctx.rule("base lines (token lists) from the generators of C02, C03, C05, C06, C09-C14, plus lines with a connective directly after a number (255 in hex, 20 as usd); rewritings: 0-5 extra blanks (U+0020) in every gap between two tokens and at both ends, an appended '# comment' (after a blank or glued to the last token) drawn from printable Unicode and from the smartcalc vocabulary (numbers, '=', operators, currency / zone / month words of both languages, atoms, fields, another '#'), letter-case patterns (upper, lower, capitalised, per-letter) on currency codes and aliases (also inside money literals), month names, zone names, connectives and variable names (definition and use cased independently); the blank run between the amount (with magnitude suffix) and the currency word or sign INSIDE a money literal is widened by 1-6 blanks as well; oracle (metamorphic, exact): the AST value of every line of the rewritten text equals that of the base text under the same configuration; blank-only and comment-only lines give an empty slot; non-trivial = the base line evaluates and the rewriting inserted a blank between two tokens, changed a keyword's case or appended a comment containing a vocabulary word");
    ctx.assume("nothing is inserted inside a literal token (3:35 pm, GMT+5:30, 6%, 1,5k, $10 are single tokens); the case of unit names, duration words, base names and today/tomorrow/yesterday is not varied (not among the statement's classes)");
    ctx.run_table(&Noise, "regressions", regressions(), false);
    ctx.run_generated(&Noise, ctx.tier.pick(100_000, 1_000_000), case_strategy);
    ctx.run_generated(&EmptyLines, ctx.tier.pick(10_000, 100_000), empty_strategy);
}

pub fn replay(w: &mut Worker, sub: &str, case: &serde_json::Value) -> Option<Verdict> {
    match sub {
        "noise" => crate::engine::replay_case(&Noise, w, case),
        "blank-or-comment-only" => crate::engine::replay_case(&EmptyLines, w, case),
        _ => None,
    }
}
