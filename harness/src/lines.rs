//! Lines as token lists: the common currency between the per-property generators and the
//! metamorphic properties (C08 separators, C15 print/read, C16 blanks/comments/case, C17 spans,
//! C19 languages, C04 histories, C01 mutants).

use crate::common::literal;
use serde::{Deserialize, Serialize};

#[derive(Clone, Copy, Debug, PartialEq, Eq, Serialize, Deserialize)]
pub enum Class {
    /// a plain decimal literal (may carry a magnitude suffix)
    Number,
    /// p% or %p
    Percent,
    /// a money literal with its symbol / code glued or spaced inside one token
    Money,
    Operator,
    Paren,
    /// currency code or alias written as a separate word
    Currency,
    Month,
    Zone,
    /// connective keyword: to of on off as in into at is what
    Conn,
    Var,
    Unit,
    DurWord,
    /// other keyword whose case is not varied (today, hex, unix, date ...)
    Keyword,
    Time,
    Based,
    Other,
}

/// A numeric literal inside a token: non-negative magnitude, attached sign, thousands grouping.
#[derive(Clone, Debug, PartialEq, Serialize, Deserialize)]
pub struct NumLit {
    pub v: f64,
    /// 0 none, 1 '-', 2 '+'
    pub sign: u8,
    pub group: bool,
}

impl NumLit {
    pub fn new(v: f64) -> NumLit {
        NumLit { v: v.abs(), sign: if v < 0.0 { 1 } else { 0 }, group: false }
    }
    pub fn grouped(mut self, g: bool) -> NumLit {
        self.group = g;
        self
    }
    pub fn value(&self) -> f64 {
        if self.sign == 1 {
            -self.v
        } else {
            self.v
        }
    }
    pub fn render(&self, dec: &str, thou: &str) -> String {
        let mut s = String::new();
        match self.sign {
            1 => s.push('-'),
            2 => s.push('+'),
            _ => {}
        }
        s.push_str(&literal(self.v, dec, thou, self.group));
        s
    }
    pub fn has_fraction(&self) -> bool {
        self.v.fract() != 0.0
    }
    pub fn has_group(&self, thou: &str) -> bool {
        self.group && !thou.is_empty() && self.v >= 1000.0
    }
}

#[derive(Clone, Debug, PartialEq, Serialize, Deserialize)]
pub struct Tok {
    pub pre: String,
    pub num: Option<NumLit>,
    pub post: String,
    pub class: Class,
    /// blanks before this token in the base rendering
    pub space: u8,
}

impl Tok {
    pub fn word(text: &str, class: Class) -> Tok {
        Tok { pre: text.to_string(), num: None, post: String::new(), class, space: 1 }
    }
    pub fn op(c: char) -> Tok {
        Tok { pre: c.to_string(), num: None, post: String::new(), class: if c == '(' || c == ')' { Class::Paren } else { Class::Operator }, space: 1 }
    }
    pub fn num(n: NumLit) -> Tok {
        Tok { pre: String::new(), num: Some(n), post: String::new(), class: Class::Number, space: 1 }
    }
    pub fn numv(v: f64) -> Tok {
        Tok::num(NumLit::new(v))
    }
    pub fn with(pre: &str, n: NumLit, post: &str, class: Class) -> Tok {
        Tok { pre: pre.to_string(), num: Some(n), post: post.to_string(), class, space: 1 }
    }
    pub fn sp(mut self, n: u8) -> Tok {
        self.space = n;
        self
    }
    pub fn text(&self, dec: &str, thou: &str) -> String {
        match &self.num {
            Some(n) => format!("{}{}{}", self.pre, n.render(dec, thou), self.post),
            None => format!("{}{}", self.pre, self.post),
        }
    }
}

#[derive(Clone, Debug, PartialEq, Serialize, Deserialize, Default)]
pub struct Line {
    pub toks: Vec<Tok>,
}

impl Line {
    /// the two-line program that holds tokens [from, to) of this line in a name bound on an earlier line:
    /// `name = <tokens>` and the line with those tokens replaced by the name (a blank on either side of the name)
    pub fn via_variable(&self, from: usize, to: usize, name: &str, dec: &str, thou: &str) -> String {
        let mut def = Line::default();
        for w in name.split(' ') {
            def.push(Tok::word(w, Class::Var));
        }
        def.push(Tok::op('='));
        for t in &self.toks[from..to] {
            def.push(t.clone());
        }
        let mut l = Line::default();
        for t in &self.toks[..from] {
            l.push(t.clone());
        }
        for w in name.split(' ') {
            l.push(Tok::word(w, Class::Var));
        }
        for (k, t) in self.toks[to..].iter().enumerate() {
            let mut t = t.clone();
            if k == 0 && t.space == 0 {
                t.space = 1;
            }
            l.push(t);
        }
        format!("{}\n{}", def.render(dec, thou), l.render(dec, thou))
    }
    pub fn new(toks: Vec<Tok>) -> Line {
        let mut l = Line { toks };
        if let Some(t) = l.toks.first_mut() {
            t.space = 0;
        }
        l
    }
    /// base rendering under a separator convention
    pub fn render(&self, dec: &str, thou: &str) -> String {
        self.render_spaced(dec, thou, &[])
    }
    /// rendering with `extra[i]` additional blanks before token i and extra[len] at the end
    pub fn render_spaced(&self, dec: &str, thou: &str, extra: &[u8]) -> String {
        let mut s = String::new();
        for (i, t) in self.toks.iter().enumerate() {
            let n = t.space as usize + extra.get(i).copied().unwrap_or(0) as usize;
            for _ in 0..n {
                s.push(' ');
            }
            s.push_str(&t.text(dec, thou));
        }
        for _ in 0..extra.get(self.toks.len()).copied().unwrap_or(0) {
            s.push(' ');
        }
        s
    }
    /// rendering plus the character span (start, end) of every token
    pub fn render_with_offsets(&self, dec: &str, thou: &str, extra: &[u8]) -> (String, Vec<(usize, usize)>) {
        let mut s = String::new();
        let mut pos = 0usize;
        let mut spans = vec![];
        for (i, t) in self.toks.iter().enumerate() {
            let n = t.space as usize + extra.get(i).copied().unwrap_or(0) as usize;
            for _ in 0..n {
                s.push(' ');
            }
            pos += n;
            let text = t.text(dec, thou);
            let len = text.chars().count();
            spans.push((pos, pos + len));
            pos += len;
            s.push_str(&text);
        }
        for _ in 0..extra.get(self.toks.len()).copied().unwrap_or(0) {
            s.push(' ');
        }
        (s, spans)
    }
    pub fn push(&mut self, t: Tok) {
        let first = self.toks.is_empty();
        self.toks.push(t);
        if first {
            self.toks[0].space = 0;
        }
    }
    pub fn extend(&mut self, other: Line) {
        for (i, mut t) in other.toks.into_iter().enumerate() {
            if i == 0 && !self.toks.is_empty() && t.space == 0 {
                t.space = 1;
            }
            self.push(t);
        }
    }
    pub fn has_fraction_or_group(&self, thou: &str) -> bool {
        self.toks.iter().any(|t| t.num.as_ref().map_or(false, |n| n.has_fraction() || n.has_group(thou)))
    }
}

/// helper: a line from a plain string of blank-separated words without numerals
pub fn words(text: &str, class: Class) -> Vec<Tok> {
    text.split(' ').filter(|w| !w.is_empty()).map(|w| Tok::word(w, class)).collect()
}

/// Apply a letter-case pattern to a word: 0 as is, 1 upper, 2 lower, 3 capitalised, 4 alternating
pub fn recase(word: &str, pattern: u8, bits: u32) -> String {
    match pattern % 5 {
        0 => word.to_string(),
        1 => word.to_uppercase(),
        2 => word.to_lowercase(),
        3 => {
            let mut c = word.chars();
            match c.next() {
                Some(f) => f.to_uppercase().collect::<String>() + &c.as_str().to_lowercase(),
                None => String::new(),
            }
        }
        _ => word
            .chars()
            .enumerate()
            .map(|(i, ch)| if (bits >> (i % 32)) & 1 == 1 { ch.to_uppercase().collect::<String>() } else { ch.to_lowercase().collect::<String>() })
            .collect(),
    }
}
