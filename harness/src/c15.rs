//! C15 — printed results can be typed back in: formatter and reader agree.

use crate::common::{Cfg, Slot, NT, READ_SEPS, V};
use crate::engine::{Acc, Ctx, Prop, Verdict, Worker};
use crate::lines::{Class, Line, NumLit, Tok};
use crate::mixed::{any_line, GenLine};
use crate::vocab::vocab;
use proptest::prelude::*;
use serde::{Deserialize, Serialize};

#[derive(Clone, Debug, Serialize, Deserialize)]
pub struct Case {
    /// the producer line (its result passes through the real printer)
    pub g: GenLine,
    pub seps: usize,
    pub num: (u8, bool, bool),
    pub pct: (u8, bool, bool),
    pub money: (bool, bool),
}

pub fn case_cfg(c: &Case) -> Cfg {
    let (dec, thou) = READ_SEPS[c.seps % 4];
    Cfg { dec: Some(dec.into()), thou: Some(thou.into()), tz: c.g.tz.clone(), num: Some(c.num), pct: Some(c.pct), money: Some(c.money), order: (c.num.0 % 2) }
}

pub struct RoundTrip;

fn classify_known(v: &V, out1: &str, out2: &str) -> Option<&'static str> {
    match v {
        // F110: SEK prints the symbol 'kr', which the reader resolves to DKK ('kr.')
        V::Money(_, code) if code == "SEK" && out1.ends_with(" kr") && out2 == format!("{}.", out1) => Some("F110"),
        // F111: 360-364 remaining days print as '12 months N days', which reads as one year (365 days)
        V::Dur(..) if (out1.contains("12 months") || out1.contains("12 ay")) && out2 != out1 => Some("F111"),
        _ => None,
    }
}

impl Prop for RoundTrip {
    type Case = Case;
    fn name(&self) -> &'static str {
        "print-read-print"
    }
    fn check(&self, w: &mut Worker, c: &Case) -> Verdict {
        let (dec, thou) = READ_SEPS[c.seps % 4];
        let cfg = case_cfg(c);
        let text = c.g.text(dec, thou);
        let head = format!("[{} {} {}] {:?}", c.g.src, c.g.lang, cfg.label(), text);
        let today0 = chrono::Utc::now().date_naive();
        let o1 = match w.eval_reconfigured(&cfg, &c.g.lang, &text) {
            Ok(o) => o,
            Err(p) => return Verdict::fail(format!("panic at {}: {}", p.site, p.message), head),
        };
        let (out1, v1) = match o1.slots.last() {
            Some(Slot::Ok { out, v }) => (out.clone(), v.clone()),
            _ => return Verdict::skip("the producer line does not evaluate to a value", head),
        };
        let kind: &'static str = match &v1 {
            V::Num(_, NT::Decimal) => "kind:number",
            V::Num(_, NT::Raw) => return Verdict::skip("raw timestamps are not in the statement's list", head),
            V::Num(..) => "kind:based-integer",
            V::Pct(_) => "kind:percent",
            V::Money(_, code) => {
                // currencies that have a configured symbol or alias
                let key = code.to_lowercase();
                let v = crate::vocab::vocab();
                if !v.currency_alias.values().any(|t| *t == key) {
                    return Verdict::skip("currency without a configured symbol or alias", head);
                }
                "kind:money"
            }
            V::Dur(..) => "kind:duration",
            V::Time(..) => "kind:time",
            V::Date(..) => "kind:date",
            V::Unit(..) => "kind:unit",
            V::DateTime(..) => return Verdict::skip("date-times are not in the statement's list", head),
            V::NoValue(_) => return Verdict::skip("no value", head),
        };
        if out1.is_empty() {
            return Verdict::skip("a zero duration prints the empty string, which cannot be entered", head);
        }
        if let V::Num(x, _) | V::Pct(x) | V::Money(x, _) | V::Unit(x, ..) = &v1 {
            if !x.is_finite() {
                return Verdict::skip("not a finite value", head);
            }
        }
        if let V::Num(x, NT::Hex | NT::Octal | NT::Binary) = &v1 {
            if *x < 0.0 || *x > 9007199254740992.0 {
                return Verdict::skip("negative or > 2^53 based integer (outside C13's domain)", head);
            }
        }
        let rendered = format!("{}  prints {:?}", head, out1);
        let o2 = match w.eval_reconfigured(&cfg, &c.g.lang, &out1) {
            Ok(o) => o,
            Err(p) => return Verdict::fail(format!("typing {:?} back in panicked at {}: {}", out1, p.site, p.message), rendered),
        };
        let mut acc = Acc::new();
        match o2.slots.last() {
            Some(Slot::Ok { out: out2, .. }) if o2.slots.len() == 1 => {
                if *out2 != out1 {
                    if chrono::Utc::now().date_naive() != today0 {
                        return Verdict::skip("date changed during the case", rendered);
                    }
                    acc.fail_kf(format!("{:?} typed back in prints {:?}", out1, out2), classify_known(&v1, &out1, out2));
                }
            }
            other => acc.fail_kf(format!("{:?} typed back in gives {:?}", out1, other.map(|s| s.brief())), classify_known(&v1, &out1, "")),
        }
        let has_sep = out1.contains(dec) || (!thou.is_empty() && out1.contains(thou));
        let has_word = out1.chars().any(|ch| ch.is_alphabetic());
        acc.finish(rendered).nt(has_sep || has_word).class(kind).class_if(c.g.lang == "tr", "lang:tr").class_if(c.seps != 0, "non-default-separators").class_if(c.num.0 != 2 || c.pct.0 != 2, "non-default-digits").class_if(has_sep, "output-has-separator").class_if(has_word, "output-has-word")
    }
}

/// producers that exercise the printers directly: money in the six aliased currencies, units, dates
fn extra_producers() -> impl Strategy<Value = GenLine> {
    let aliased: Vec<String> = {
        let v = crate::vocab::vocab();
        let mut k: Vec<String> = v.currency_alias.values().cloned().collect();
        k.sort();
        k.dedup();
        k
    };
    let money = (crate::c06::amount_strategy(), prop::sample::select(aliased)).prop_map(|(a, cur)| GenLine::simple(Line::new(vec![Tok::with("", a, &format!(" {}", cur), Class::Money)]), "C06"));
    let unit = (crate::c12::amount_strategy(), crate::c12::unit_strategy()).prop_map(|(a, u)| GenLine::simple(Line::new(vec![Tok::num(a), Tok::word(&u.source_name(), Class::Unit)]), "C12"));
    let number = crate::c07::value_strategy().prop_filter("literal range", |v| v.abs() < 1e15).prop_map(|v| GenLine::simple(Line::new(vec![Tok::num(NumLit::new(v))]), "C07"));
    let percent = crate::c05::value_strategy().prop_map(|p| GenLine::simple(Line::new(vec![Tok::with("", p, "%", Class::Percent)]), "C05"));
    let dur = (crate::c10::case_strategy()).prop_map(|c| GenLine { prelude: vec![], line: crate::c10::case_line(&c), lang: c.lang.clone(), tz: None, src: "C10".into() });
    let date = crate::c09::case_strategy().prop_map(|c| GenLine { prelude: vec![], line: crate::c09::case_line(&c), lang: c.lang.clone(), tz: None, src: "C09".into() });
    // times in Turkish too (the lexer is the same; Turkish prints the zone like English)
    let time = (crate::c11::time_strategy(), prop::sample::select(vec!["en", "tr"]), prop::option::of(prop::sample::select(vec!["EST", "CET", "NPT", "GMT+3", "est", "Cet", "gmt+3", "Gmt+5:30", "gmt-7", "GMT+11", "gmt1"]))).prop_map(|(t, lang, tz)| GenLine { prelude: vec![], line: Line::new(vec![t.tok()]), lang: lang.into(), tz: tz.map(|s| s.to_string()), src: "C11".into() });
    // based integers: random ones, and hexadecimal ones whose digits spell a currency code (0xAF, 0x1AED, 0xCD1: a
    // printed literal must not read back as money)
    let is_hex = |t: &str| !t.is_empty() && t.chars().all(|ch| ('a'..='f').contains(&ch));
    let mut fragments: Vec<String> = vec![];
    for k in vocab().all_currency_keys.iter() {
        if is_hex(k) {
            fragments.push(k.to_uppercase()); // 0x1AED: a digit followed by AED
        } else if k.starts_with('x') && is_hex(&k[1..]) {
            fragments.push(k[1..].to_uppercase()); // 0xAF: `0` followed by xAF
        }
    }
    if fragments.is_empty() {
        fragments.push("AF".to_string());
    }
    let coded = (prop::sample::select(fragments), prop::sample::select(vec!["", "", "1", "2F", "10"]), prop::sample::select(vec!["", "0", "1", "00", "9A"])).prop_map(|(code, pre, post)| u64::from_str_radix(&format!("{}{}{}", pre, code, post), 16).unwrap_or(175));
    let based = (prop_oneof![2 => crate::c13::n_strategy(), 2 => coded], prop::sample::select(vec!["hex", "octal", "binary"])).prop_map(|(n, t)| {
        GenLine::simple(Line::new(vec![Tok::num(NumLit::new(n as f64)), Tok::word("to", Class::Conn), Tok::word(t, Class::Keyword)]), "C13")
    });
    prop_oneof![3 => money, 3 => unit, 3 => number, 2 => percent, 3 => dur, 3 => date, 2 => time, 2 => based]
}

pub fn case_strategy() -> impl Strategy<Value = Case> {
    let numcfg = || prop_oneof![3 => Just((2u8, true, true)), 4 => (0u8..=4, any::<bool>(), any::<bool>())];
    (prop_oneof![2 => any_line(), 3 => extra_producers()], prop_oneof![2 => Just(0usize), 2 => 1usize..4], numcfg(), numcfg(), prop_oneof![2 => Just((false, true)), 2 => (any::<bool>(), any::<bool>())]).prop_map(|(g, seps, num, pct, money)| Case { g, seps, num, pct, money })
}

pub fn regressions() -> Vec<Case> {
    let d = |g: GenLine| Case { g, seps: 0, num: (2, true, true), pct: (2, true, true), money: (false, true) };
    let lit = |text: &str, class: Class, lang: &str| GenLine { prelude: vec![], line: Line::new(vec![Tok { pre: text.into(), num: None, post: String::new(), class, space: 0 }]), lang: lang.into(), tz: None, src: "C15".into() };
    vec![
        // F112: a time in Turkish
        d(lit("10:30", Class::Time, "tr")),
        // -0: a negative value that rounds to zero
        d(GenLine::simple(Line::new(vec![Tok::num(NumLit::new(-0.004))]), "C07")),
        // F50: BGN prints 'лв.'
        d(lit("10 bgn", Class::Money, "en")),
        // F110: SEK prints 'kr'
        d(lit("10 sek", Class::Money, "en")),
        // F111: 364 days
        d(lit("364 days", Class::Other, "en")),
        d(lit("1.024 kb", Class::Other, "en")),
    ]
}

pub fn run(ctx: &Ctx) {
    ctx.rule("producer lines whose result passes through the real printer: numbers, percentages, money in every currency that has a configured symbol or alias (TRY, USD, SEK, DKK, BGN, EUR), durations, times with zone, dates (current-year and other-year form), unit quantities (33 units), based integers, plus the lines of all other generators x the four reading conventions x digits 0..4 x both flag settings (number, percent, money) x languages en/tr; times under a default zone given to set_timezone in upper, lower or mixed case (EST, est, Cet, GMT+3, gmt+3, Gmt+5:30, gmt-7, gmt1); oracle (round trip / idempotence): out1 = printed result of the line, out2 = printed result of out1 typed as a new line on the same calculator and language; out2 == out1 as strings; non-trivial = out1 contains a separator or a word (unit / currency / month / zone / duration word)");
    ctx.assume("date-times and raw timestamps are not in the statement's list; a zero duration prints the empty string and is skipped; non-finite values are skipped");
    ctx.run_table(&RoundTrip, "regressions", regressions(), false);
    ctx.run_generated(&RoundTrip, ctx.tier.pick(100_000, 1_000_000), case_strategy);
    // unit quantities of user-defined families (same print/parse convention as the built-in units)
    ctx.run_generated(&crate::custom_units::CustomUnits, ctx.tier.pick(300, 5_000), || crate::custom_units::case_strategy("C15"));
}

pub fn replay(w: &mut Worker, sub: &str, case: &serde_json::Value) -> Option<Verdict> {
    match sub {
        "print-read-print" => crate::engine::replay_case(&RoundTrip, w, case),
        "custom-units" => crate::custom_units::replay(w, case),
        _ => None,
    }
}
