//! C04 — evaluation never changes the calculator; sessions isolate and persist correctly.

use crate::common::{build_calc, eval_on, eval_session, eval_session_again, Cfg, EvalOut, Slot};
use crate::engine::{Acc, Ctx, Prop, Verdict, Worker};
use crate::mixed::any_line;
use proptest::prelude::*;
use serde::{Deserialize, Serialize};

fn time_dependent(text: &str) -> bool {
    let l = text.to_lowercase();
    l.contains("now") || l.contains("imdi")
}

fn same_out(a: &EvalOut, b: &EvalOut) -> Result<(), String> {
    if a.status != b.status {
        return Err(format!("status {} vs {}", a.status, b.status));
    }
    if a.slots.len() != b.slots.len() {
        return Err(format!("{} slots vs {}", a.slots.len(), b.slots.len()));
    }
    for (i, (x, y)) in a.slots.iter().zip(b.slots.iter()).enumerate() {
        if !x.same(y) {
            return Err(format!("slot {}: {} vs {}", i, x.brief(), y.brief()));
        }
    }
    if a.ui != b.ui {
        return Err("highlight tokens differ".to_string());
    }
    Ok(())
}

// ---- (a) calculator histories ------------------------------------------------------------------

#[derive(Clone, Debug, Serialize, Deserialize)]
pub struct CalcHistory {
    pub cfg: Cfg,
    /// (language, text) evaluated on the long-lived calculator before the probe
    pub history: Vec<(String, String)>,
    pub probe: (String, String),
    /// configurations the long-lived calculator is switched to (through the public setters) before history text i;
    /// it is switched back to `cfg` before the probe
    #[serde(default)]
    pub reconf: Vec<(u8, u8)>,
}

/// configurations visited in between (all reachable through the setters, zones valid)
pub fn reconf_panel() -> Vec<Cfg> {
    vec![
        Cfg::seps(".", ","),
        Cfg::seps(".", ""),
        Cfg::seps(",", ""),
        Cfg::default().with_tz("EST"),
        Cfg::default().with_tz("GMT+5:30"),
        Cfg { num: Some((4, false, true)), pct: Some((0, true, false)), ..Cfg::default() },
        Cfg { money: Some((true, false)), num: Some((0, true, true)), ..Cfg::seps(".", ",") },
        Cfg { tz: Some("NPT".into()), num: Some((9, false, false)), ..Cfg::seps(",", "") },
    ]
}

pub struct Purity(pub &'static str);

impl Prop for Purity {
    type Case = CalcHistory;
    fn shrink_iters(&self) -> u32 {
        300
    }
    fn name(&self) -> &'static str {
        self.0
    }
    fn check(&self, w: &mut Worker, c: &CalcHistory) -> Verdict {
        let rendered = format!("[{}] history of {} texts, then probe [{}] {:?}", c.cfg.label(), c.history.len(), c.probe.0, c.probe.1);
        let today0 = chrono::Utc::now().date_naive();
        let mut long_lived = build_calc(&c.cfg);
        let mut acc = Acc::new();
        let mut failing_lines = 0;
        let panel = reconf_panel();
        let mut reconfigured = false;
        for (k, (lang, text)) in c.history.iter().enumerate() {
            if let Some((_, pick)) = c.reconf.iter().find(|(at, _)| *at as usize == k) {
                crate::common::apply_cfg(&mut long_lived, &panel[*pick as usize % panel.len()]);
                reconfigured = true;
            }
            w.count_eval(1);
            match eval_on(&long_lived, lang, text) {
                Ok(o) => failing_lines += o.slots.iter().filter(|s| matches!(s, Slot::Err(_))).count(),
                Err(p) => {
                    acc.fail(format!("history text {:?} panicked at {}: {}", text, p.site, p.message));
                    return acc.finish(rendered);
                }
            }
        }
        if reconfigured {
            // back to the configuration of the probe, through the same public setters
            crate::common::apply_cfg(&mut long_lived, &c.cfg);
        }
        w.count_eval(2);
        let a = eval_on(&long_lived, &c.probe.0, &c.probe.1);
        let fresh = build_calc(&c.cfg);
        let b = eval_on(&fresh, &c.probe.0, &c.probe.1);
        let mut probe_ok = false;
        match (a, b) {
            (Ok(a), Ok(b)) => {
                probe_ok = a.slots.iter().any(|s| matches!(s, Slot::Ok { .. }));
                if let Err(e) = same_out(&a, &b) {
                    if chrono::Utc::now().date_naive() != today0 {
                        return Verdict::skip("date changed during the case", rendered);
                    }
                    acc.fail(format!("the probe evaluates differently after the history than on a fresh calculator: {} (long-lived vs fresh)", e));
                }
            }
            (Err(p), _) | (_, Err(p)) => acc.fail(format!("probe panicked at {}: {}", p.site, p.message)),
        }
        // and a second evaluation of the probe on the same calculator gives the same again
        if acc.ok() {
            if let (Ok(a2), Ok(b2)) = (eval_on(&long_lived, &c.probe.0, &c.probe.1), eval_on(&fresh, &c.probe.0, &c.probe.1)) {
                if let Err(e) = same_out(&a2, &b2) {
                    acc.fail(format!("second evaluation of the probe differs: {}", e));
                }
            }
        }
        let related = self.0 == "related-history";
        acc.finish(rendered).nt(c.history.len() >= 3 && probe_ok).class_if(related, "history-made-of-variants-of-the-probe").class_if(reconfigured, "reconfigured-through-the-setters-in-between").class_if(related && c.history.iter().any(|(_, t)| t.split(|ch: char| !ch.is_ascii_digit() && ch != ',' && ch != '.').any(|w| w == "0")), "variant-with-a-zero-operand").class_if(failing_lines > 0, "history-contains-failing-lines").class_if(c.history.len() >= 10, "history>=10").class_if(c.cfg != Cfg::default(), "non-default-config").class_if(c.probe.1.contains('='), "probe-has-assignment")
    }
}

fn text_strategy() -> impl Strategy<Value = (String, String)> {
    // one to four lines from all generators (+ garbage), under the default separators
    let line = prop_oneof![
        8 => any_line().prop_map(|g| (g.lang.clone(), g.text(",", "."))),
        2 => crate::c01::soup_line(10).prop_map(|s| ("en".to_string(), s)),
        1 => prop::sample::select(vec!["x = 5", "x = x + 1", "rate = 10 usd", "x * 2", "rate to try", "total cost = 3 kg", "total cost * x"]).prop_map(|s| ("en".to_string(), s.to_string())),
    ];
    prop::collection::vec(line, 1..4).prop_map(|ls| {
        let lang = ls[0].0.clone();
        (lang, ls.into_iter().map(|(_, t)| t).collect::<Vec<_>>().join("\n"))
    })
    .prop_filter("time of day", |(_, t)| !time_dependent(t))
}

pub fn calc_history_strategy(max: usize) -> impl Strategy<Value = CalcHistory> {
    let cfg = prop_oneof![4 => Just(Cfg::default()), 2 => prop::sample::select(vec![Cfg::seps(".", ","), Cfg::seps(".", ""), Cfg::default().with_tz("EST"), Cfg { num: Some((4, false, true)), ..Cfg::default() }])];
    (cfg, prop::collection::vec(text_strategy(), 1..max), text_strategy(), prop::collection::vec((0u8..12, 0u8..8), 0..3)).prop_map(|(cfg, history, probe, reconf)| CalcHistory { cfg, history, probe, reconf })
}

/// values that replace the numeric literals of the probe in the history texts
pub const REPL: [f64; 12] = [0.0, 0.0, 0.0, 1.0, 2.0, 12.0, 0.5, 1000.0, 1e9, 31.0, 60.0, 100.0];

/// histories made of VARIANTS of the probe: the same sentence (same units, currencies, zones, keywords, variable
/// names) with other operands - zero, one, large, fractional - so that anything the calculator might remember
/// per sentence shape, unit pair, currency pair, zone or name is primed with different numbers before the probe
pub fn related_history_strategy(max: usize) -> impl Strategy<Value = CalcHistory> {
    let cfg = prop_oneof![4 => Just(Cfg::default()), 1 => Just(Cfg::seps(".", ","))];
    // (other language?, operand replacements)
    let variant = (prop::bool::weighted(0.3), prop::collection::vec((any::<bool>(), 0usize..REPL.len()), 12));
    (cfg, any_line().prop_filter("time of day", |g| !time_dependent(&g.text(",", "."))), prop::collection::vec(variant, 1..max), prop::collection::vec(text_strategy(), 0..3)).prop_map(|(cfg, g, variants, others)| {
        let (dec, thou) = (cfg.dec().to_string(), cfg.thou().to_string());
        let mut history = vec![];
        for (k, (other_lang, picks)) in variants.iter().enumerate() {
            let mut v = g.clone();
            if *other_lang {
                // the same words evaluated under the other language first (whatever they mean there)
                v.lang = if g.lang == "tr" { "en".to_string() } else { "tr".to_string() };
            }
            let mut n = 0;
            for l in v.prelude.iter_mut().chain(std::iter::once(&mut v.line)) {
                for t in l.toks.iter_mut() {
                    if let Some(num) = &mut t.num {
                        let (change, idx) = picks[n % picks.len()];
                        n += 1;
                        if change || k == 0 {
                            num.v = REPL[idx];
                        }
                    }
                }
            }
            // every third variant is also cut short (its last one to three tokens dropped): the same beginning of a
            // sentence matched by a shorter pattern of the same rule
            if k % 3 == 2 {
                let cut = 1 + (picks[0].1 % 3);
                let keep = v.line.toks.len().saturating_sub(cut).max(1);
                v.line.toks.truncate(keep);
            }
            history.push((v.lang.clone(), v.text(&dec, &thou)));
            if let Some(o) = others.get(k) {
                history.push(o.clone());
            }
        }
        let mut cfg = cfg;
        cfg.tz = g.tz.clone();
        CalcHistory { cfg, history, probe: (g.lang.clone(), g.text(&dec, &thou)), reconf: vec![] }
    })
}

// ---- (b) session histories ---------------------------------------------------------------------

#[derive(Clone, Debug, Serialize, Deserialize)]
pub struct SessionHistory {
    pub sessions: u8,
    /// (session index, text): set_text followed by execute_session
    pub ops: Vec<(u8, String)>,
    /// run an extra execute_session on every session at the very end (robustness only)
    pub extra_execute: bool,
    /// bit i set: session i is built with Session::default() instead of Session::new()
    #[serde(default)]
    pub default_ctor: u8,
    /// language in force for op i (0 en, 1 tr), cyclic; empty = every op under en. Histories that switch the language
    /// consist of word-free texts (numbers, money, names), which mean the same in every configured language, so the
    /// one-text reference is evaluated under en
    #[serde(default)]
    pub langs: Vec<u8>,
}

pub struct Sessions;

impl Prop for Sessions {
    type Case = SessionHistory;
    fn shrink_iters(&self) -> u32 {
        300
    }
    fn name(&self) -> &'static str {
        "session-history"
    }
    fn check(&self, w: &mut Worker, c: &SessionHistory) -> Verdict {
        let cfg = Cfg::default();
        let n = c.sessions.max(1) as usize;
        let rendered = format!("{} sessions; {}", n, c.ops.iter().enumerate().map(|(i, (s, t))| format!("s{}{}.set_text({:?}); execute", *s as usize % n, if !c.langs.is_empty() && c.langs[i % c.langs.len()] % 2 == 1 { ".set_language(tr)" } else if !c.langs.is_empty() { ".set_language(en)" } else { "" }, t)).collect::<Vec<_>>().join("; "));
        let today0 = chrono::Utc::now().date_naive();
        let calc = build_calc(&cfg);
        let reference = build_calc(&cfg);
        let mut sessions: Vec<smartcalc::Session> = (0..n).map(|i| if (c.default_ctor >> i) & 1 == 1 { smartcalc::Session::default() } else { smartcalc::Session::new() }).collect();
        let mut executed: Vec<Vec<String>> = vec![vec![]; n];
        let mut clean: Vec<Vec<String>> = vec![vec![]; n];
        let mut bound: Vec<std::collections::BTreeSet<String>> = vec![Default::default(); n];
        let mut dropped_failed = 0;
        let mut acc = Acc::new();
        let mut differing_counts = false;
        let mut cross_text_variable = false;
        for (op_index, (si, text)) in c.ops.iter().enumerate() {
            let s = *si as usize % n;
            let lines = crate::c01::split_lines(text);
            w.count_eval(2);
            let lang = if c.langs.is_empty() || c.langs[op_index % c.langs.len()] % 2 == 0 { "en" } else { "tr" };
            let out = match eval_session(&calc, &mut sessions[s], lang, text) {
                Ok(o) => o,
                Err(p) => {
                    acc.fail(format!("panic at {}: {}", p.site, p.message));
                    break;
                }
            };
            if !out.status {
                acc.fail(format!("session {}: status is false after set_text({:?})", s, text));
                break;
            }
            if out.slots.len() != lines.len() {
                acc.fail(format!("session {}: {} slots for a text of {} lines ({:?})", s, out.slots.len(), lines.len(), text));
                break;
            }
            if let Some(prev) = executed[s].last() {
                if crate::c01::split_lines(prev).len() != lines.len() {
                    differing_counts = true;
                }
            }
            // reference: one-shot execute of everything this session has executed so far
            executed[s].push(text.clone());
            let all = executed[s].join("\n");
            let r = match eval_on(&reference, "en", &all) {
                Ok(o) => o,
                Err(p) => {
                    acc.fail(format!("reference panicked at {}: {}", p.site, p.message));
                    break;
                }
            };
            let tail = &r.slots[r.slots.len() - lines.len()..];
            for (i, (x, y)) in out.slots.iter().zip(tail.iter()).enumerate() {
                if !x.same(y) {
                    if chrono::Utc::now().date_naive() != today0 {
                        return Verdict::skip("date changed during the case", rendered);
                    }
                    acc.fail(format!("session {}: line {} of the text just set ({:?}) gives {}, but the same history as one text gives {}", s, i + 1, lines[i], x.brief(), y.brief()));
                    break;
                }
            }
            if !acc.ok() {
                break;
            }
            // second reference: "keeps its variables" - a line that failed to evaluate leaves no trace, so the same
            // history WITHOUT the lines that failed must give the same results for the text just set
            // (a line ending in a lone CR cannot be joined to the next one with LF without forming a CRLF separator)
            if !clean[s].iter().chain(lines.iter()).any(|l| l.ends_with('\r')) {
                let mut kept: Vec<String> = clean[s].clone();
                kept.extend(lines.iter().cloned());
                let r2 = match eval_on(&reference, "en", &kept.join("\n")) {
                    Ok(o) => o,
                    Err(p) => {
                        acc.fail(format!("reference panicked at {}: {}", p.site, p.message));
                        break;
                    }
                };
                let tail2 = &r2.slots[r2.slots.len() - lines.len()..];
                for (i, (x, y)) in out.slots.iter().zip(tail2.iter()).enumerate() {
                    if !x.same(y) {
                        if chrono::Utc::now().date_naive() != today0 {
                            return Verdict::skip("date changed during the case", rendered);
                        }
                        acc.fail(format!("session {}: line {} of the text just set ({:?}) gives {}, but the history without its failed lines ({:?}) gives {}", s, i + 1, lines[i], x.brief(), kept[..kept.len() - lines.len()].join(" ; "), y.brief()));
                        break;
                    }
                }
            }
            // update the clean history with the lines of this text (always - also when the comparison was skipped)
            if acc.ok() {
                for (l, slot) in lines.iter().zip(out.slots.iter()) {
                    let lhs = l.split_once('=').map(|(a, _)| a.trim().to_lowercase());
                    match (slot, lhs) {
                        // a failed line - also a failed first-time assignment (F32) - leaves no trace
                        (Slot::Err(_), _) => dropped_failed += 1,
                        (Slot::Ok { .. }, Some(name)) => {
                            bound[s].insert(name);
                            clean[s].push(l.clone());
                        }
                        _ => clean[s].push(l.clone()),
                    }
                }
            }
            if !acc.ok() {
                break;
            }
            if executed[s].len() >= 2 {
                let earlier = executed[s][..executed[s].len() - 1].join("\n");
                for name in ["x", "rate", "total cost"] {
                    if earlier.contains(&format!("{} =", name)) && lines.iter().any(|l| !l.contains('=') && l.contains(name)) {
                        cross_text_variable = true;
                    }
                }
            }
        }
        if acc.ok() && c.extra_execute {
            for s in sessions.iter() {
                w.count_eval(1);
                if let Err(p) = eval_session_again(&calc, s) {
                    acc.fail(format!("execute_session without a new text panicked at {}: {}", p.site, p.message));
                    break;
                }
            }
        }
        acc.finish(rendered).nt(differing_counts && cross_text_variable).class_if(differing_counts, "texts-of-different-line-counts").class_if(cross_text_variable, "variable-from-an-earlier-text-used").class_if(n >= 2, "two-or-more-sessions").class_if(c.default_ctor & ((1u8 << n.min(7)) - 1) != 0, "session-built-with-Session::default()").class_if(c.ops.len() >= 6, "six-or-more-texts").class_if(dropped_failed > 0, "failed-lines-dropped-from-the-reference").class_if(c.langs.iter().any(|l| l % 2 == 1), "session-switched-between-languages")
    }
}

pub fn session_text() -> impl Strategy<Value = String> {
    let line = prop_oneof![
        4 => prop::sample::select(vec!["x = 5", "x = x + 1", "x = x * x", "rate = 10 usd", "rate = rate * 2", "x * 2", "x + 1", "rate to try", "rate + 5 usd", "total cost = 3 kg", "total cost * x", "total cost to lb", "x", "rate", "10% of x", "x = 1 +", "rate = (", "", "x = 2 * 3 usd", "x = 10 + 1 hour", "rate = 5 - 12:30", "rate = 12:30 * 12:30", "total cost = 10 km * 2 kg", "x = x + 1 day"])
            .prop_map(|s| s.to_string()),
        3 => any_line().prop_filter("en", |g| g.lang == "en").prop_map(|g| g.text(",", ".")),
        1 => crate::c01::soup_line(8),
        1 => Just(String::new()),
    ];
    (prop::collection::vec((line, any::<bool>()), 1..=5), prop::bool::weighted(0.2))
        .prop_map(|(ls, trailing)| {
            let n = ls.len();
            let mut s = String::new();
            for (i, (l, crlf)) in ls.into_iter().enumerate() {
                s.push_str(&l);
                if i + 1 < n || trailing {
                    s.push_str(if crlf { "\r\n" } else { "\n" });
                }
            }
            s
        })
        .prop_filter("time of day", |t| !time_dependent(t))
}

pub fn session_history_strategy(max: usize) -> impl Strategy<Value = SessionHistory> {
    let plain = (session_history_strategy_new(max), prop_oneof![2 => Just(0u8), 1 => 0u8..8]).prop_map(|(mut h, d)| {
        h.default_ctor = d;
        h
    });
    // sessions whose language is switched between the texts: word-free lines only (they mean the same in en and tr)
    let word_free = prop::sample::select(vec!["x = 5", "x = 7", "x = x + 1", "x * 2", "x", "rate = 10 usd", "rate = 25 eur", "rate * 2", "rate + 5 usd", "rate", "total cost = 3", "total cost = total cost * x", "total cost * x", "x + total cost", "12% * x", "", "x = 1 +"]).prop_map(|s| s.to_string());
    let text = prop::collection::vec(word_free, 1..=4).prop_map(|ls| ls.join("\n"));
    let switching = (1u8..=2, prop::collection::vec((0u8..2, text), 2..max), prop::collection::vec(0u8..2, 2..6)).prop_map(|(sessions, ops, langs)| SessionHistory { sessions, ops, extra_execute: false, default_ctor: 0, langs });
    prop_oneof![4 => plain.boxed(), 1 => switching.boxed()]
}

fn session_history_strategy_new(max: usize) -> impl Strategy<Value = SessionHistory> {
    // with probability ~1/6 an op sets the text that session executed last once more (unchanged, or with a trailing
    // blank / line separator): "each time a new text is set" includes setting an equal text
    (1u8..=3, prop::collection::vec((0u8..3, session_text(), 0u8..18), 2..max), any::<bool>()).prop_map(|(sessions, ops, extra_execute)| {
        let n = sessions.max(1) as usize;
        let mut last: Vec<Option<String>> = vec![None; n];
        let mut out = vec![];
        for (s, text, rep) in ops {
            let si = s as usize % n;
            let text = match (&last[si], rep) {
                (Some(prev), 0) => prev.clone(),
                (Some(prev), 1) => format!("{} ", prev),
                (Some(prev), 2) => format!("{}\n", prev),
                _ => text,
            };
            last[si] = Some(text.clone());
            out.push((s, text));
        }
        SessionHistory { sessions, ops: out, extra_execute, default_ctor: 0, langs: vec![] }
    })
}

pub fn regressions() -> Vec<SessionHistory> {
    vec![
        // F40: a 3-line text, then a 1-line text
        SessionHistory { sessions: 1, ops: vec![(0, "x = 5\nx + 1\nx * 2".into()), (0, "x".into())], extra_execute: false, default_ctor: 0, langs: vec![] },
        SessionHistory { sessions: 1, ops: vec![(0, "x = 5".into()), (0, "x + 1\nx * 2\nx = x + 1".into()), (0, "x\n\nx".into())], extra_execute: true, default_ctor: 0, langs: vec![] },
        // a text whose first line is a lone CR (a failing line that cannot be re-joined): the later texts still see x
        SessionHistory { sessions: 1, ops: vec![(0, "\r\r\nx = 5".into()), (0, "10% of x".into())], extra_execute: false, default_ctor: 0, langs: vec![] },
        SessionHistory { sessions: 1, ops: vec![(0, "\r\r\nx = 2 * 3 usd".into()), (0, "x = x + 1 day".into())], extra_execute: false, default_ctor: 0, langs: vec![] },
        // two sessions do not share variables
        SessionHistory { sessions: 2, ops: vec![(0, "x = 5".into()), (1, "x + 1".into()), (1, "x = 7".into()), (0, "x".into()), (1, "x".into())], extra_execute: false, default_ctor: 0, langs: vec![] },
    ]
}

pub fn run(ctx: &Ctx) {
    ctx.rule("(a) calculator histories: a freshly built long-lived calculator evaluates 1-30 texts drawn from all other generators plus token soup (failing and rule-heavy lines included), then a probe text; in half of the histories the calculator is switched to other configurations through the public setters in between and back before the probe; (a') related histories: the texts before the probe are variants of the probe itself - same sentence, units, currencies, zones and names, operands replaced by 0, 1, 2, 0.5, 12, 31, 60, 100, 1000, 1e9, some of them cut short by one to three tokens - mixed with unrelated texts; oracle: status, every slot (None / error text / output / AST value) and the highlight tokens of the probe equal those on a fresh calculator of the same configuration that evaluates only the probe; (b) session histories over 1-3 sessions (built with Session::new() or Session::default(); in a fifth of the histories the session's language is switched between en and tr from text to text, the texts then being word-free) sharing one calculator: set_text(text of 1-5 lines incl. empty lines, assignments, CRLF; about one op in six sets the session's previous text again, unchanged or with a trailing blank / line separator) + execute_session; oracle: status true, slot count = line count of the text just set, slots = the last |T| slots of a one-shot execute of the concatenation of all texts that session has executed (fresh calculator, fresh session), and also of that concatenation WITHOUT the lines that failed to evaluate (a failed line leaves no trace); non-trivial = (a) history >= 3 texts and the probe yields a value, (b) texts of different line counts on one session and a variable from an earlier text used in a later one");
    ctx.assume("lines mentioning now are not generated; execute_session without a preceding set_text is exercised only at the end of a session's life (no assertion beyond not panicking)");
    ctx.run_table(&Sessions, "regressions", regressions(), false);
    let (h, s) = match ctx.tier {
        crate::engine::Tier::Quick => (16, 8),
        crate::engine::Tier::Thorough => (30, 12),
    };
    ctx.run_generated(&Purity("calculator-history"), ctx.tier.pick(400, 8_000), || calc_history_strategy(h));
    ctx.run_generated(&Purity("related-history"), ctx.tier.pick(600, 12_000), || related_history_strategy(h / 2));
    ctx.run_generated(&Sessions, ctx.tier.pick(1_500, 40_000), || session_history_strategy(s));
}

pub fn replay(w: &mut Worker, sub: &str, case: &serde_json::Value) -> Option<Verdict> {
    match sub {
        "calculator-history" => crate::engine::replay_case(&Purity("calculator-history"), w, case),
        "related-history" => crate::engine::replay_case(&Purity("related-history"), w, case),
        "session-history" => crate::engine::replay_case(&Sessions, w, case),
        _ => None,
    }
}
