//! Lines drawn from all per-property generators: the input domain of the metamorphic properties
//! (C08 separators, C15 print/read, C16 blanks/comments/case, C17 spans, C04 histories, C01 mutants).

use crate::lines::{Class, Line, NumLit, Tok};
use proptest::prelude::*;
use serde::{Deserialize, Serialize};

#[derive(Clone, Debug, Serialize, Deserialize)]
pub struct GenLine {
    /// lines evaluated before the line of interest in the same text (variable definitions)
    pub prelude: Vec<Line>,
    pub line: Line,
    pub lang: String,
    /// default zone to set through set_timezone
    pub tz: Option<String>,
    /// which generator produced it
    pub src: String,
}

impl GenLine {
    pub fn simple(line: Line, src: &str) -> GenLine {
        GenLine { prelude: vec![], line, lang: "en".into(), tz: None, src: src.into() }
    }
    pub fn all_lines(&self) -> Vec<&Line> {
        self.prelude.iter().chain(std::iter::once(&self.line)).collect()
    }
    pub fn text(&self, dec: &str, thou: &str) -> String {
        self.all_lines().iter().map(|l| l.render(dec, thou)).collect::<Vec<_>>().join("\n")
    }
    pub fn cfg(&self, dec: &str, thou: &str) -> crate::common::Cfg {
        let mut c = crate::common::Cfg::seps(dec, thou);
        c.tz = self.tz.clone();
        c
    }
}

/// `name = <line>` followed by a use of the name
fn with_variable(value: Line, use_kind: u8, name_pick: u8) -> (Vec<Line>, Line) {
    // two names with non-ASCII letters whose case mapping is one-to-one (case variation must not matter for them either)
    // ... two names spelled like zone abbreviations (a name is a name, whatever else the word could mean), and one
    // that contains an operator character
    let names = ["total", "rent", "net amount", "bonus", "ürün", "цена нетто", "cat", "west", "tax-rate"];
    let name = names[name_pick as usize % names.len()];
    let mut def = Line::default();
    for w in name.split(' ') {
        def.push(Tok::word(w, Class::Var));
    }
    def.push(Tok::op('='));
    def.extend(value);
    let mut u = Line::default();
    let push_name = |l: &mut Line| {
        for w in name.split(' ') {
            l.push(Tok::word(w, Class::Var));
        }
    };
    // kinds 6 and 7: the name was bound before (to another value) and is re-bound by `def`
    let mut prelude = vec![];
    if use_kind % 8 >= 6 {
        let mut first = Line::default();
        for w in name.split(' ') {
            first.push(Tok::word(w, Class::Var));
        }
        first.push(Tok::op('='));
        first.push(Tok::num(NumLit::new(7.0)));
        prelude.push(first);
    }
    prelude.push(def);
    match use_kind % 8 {
        0 | 6 => push_name(&mut u),
        4 => {
            // the use is itself an assignment: `other = name * 2,5`
            u.push(Tok::word("other", Class::Var));
            u.push(Tok::op('='));
            push_name(&mut u);
            u.push(Tok::op('*'));
            u.push(Tok::num(NumLit::new(2.5)));
        }
        5 => {
            u.push(Tok::word("grand", Class::Var));
            u.push(Tok::word("sum", Class::Var));
            u.push(Tok::op('='));
            push_name(&mut u);
            u.push(Tok::op('+'));
            push_name(&mut u);
        }
        1 | 7 => {
            push_name(&mut u);
            u.push(Tok::op('*'));
            u.push(Tok::num(NumLit::new(2.5)));
        }
        2 => {
            push_name(&mut u);
            u.push(Tok::op('+'));
            push_name(&mut u);
        }
        _ => {
            push_name(&mut u);
            u.push(Tok::op('/'));
            u.push(Tok::num(NumLit::new(4.0)));
        }
    }
    (prelude, u)
}

pub fn any_line() -> impl Strategy<Value = GenLine> {
    let c02 = crate::c02::expr_strategy(4, 12).prop_map(|e| GenLine::simple(crate::c02::to_line(&e), "C02"));
    let c05 = crate::c05::case_strategy().prop_map(|c| GenLine::simple(crate::c05::case_line(&c), "C05"));
    let c06 = crate::c06::shape_strategy().prop_map(|s| GenLine::simple(crate::c06::shape_line(&s), "C06"));
    // (the default zone of the C09 case travels with the line: printing a date must not depend on it)
    let c09 = crate::c09::case_strategy().prop_map(|c| GenLine { prelude: vec![], line: crate::c09::case_line(&c), lang: c.lang.clone(), tz: c.tz.clone(), src: "C09".into() });
    let c10 = crate::c10::case_strategy().prop_map(|c| GenLine { prelude: vec![], line: crate::c10::case_line(&c), lang: c.lang.clone(), tz: None, src: "C10".into() });
    let c11 = crate::c11::case_strategy().prop_map(|c| GenLine { prelude: vec![], line: crate::c11::case_line(&c), lang: "en".into(), tz: c.default_tz.as_ref().map(|z| z.text()), src: "C11".into() });
    let c12 = crate::c12::shape_strategy().prop_map(|s| GenLine::simple(crate::c12::case_line(&crate::c12::Case { shape: s, seps: 0, glue: 0, via: 0 }), "C12"));
    let c13 = crate::c13::case_strategy().prop_map(|c| GenLine::simple(crate::c13::case_line(&c), "C13"));
    let c14 = crate::c14::case_strategy().prop_map(|c| {
        let mut ls = crate::c14::case_lines(&c);
        let last = ls.pop().unwrap();
        GenLine { prelude: ls, line: last, lang: "en".into(), tz: c.default_tz.as_ref().map(|z| z.text()), src: "C14".into() }
    });
    // a value stored in a variable and used afterwards
    let var_value = prop_oneof![
        crate::c02::expr_strategy(2, 6).prop_map(|e| crate::c02::to_line(&e)),
        crate::c06::money_lit(crate::c06::rated_key()).prop_map(|m| Line::new(vec![m.tok()])),
        (crate::c12::amount_strategy(), crate::c12::unit_strategy()).prop_map(|(a, u)| Line::new(vec![Tok::num(a), Tok::word(&u.source_name(), Class::Unit)])),
        crate::c05::value_strategy().prop_map(|p| Line::new(vec![Tok::with("", p, "%", Class::Percent)])),
        crate::c10::part_strategy().prop_map(|p| Line::new(p.toks("en"))),
        crate::c09::datelit("en").prop_map(|d| Line::new(d.toks("en"))),
    ];
    let c03 = (var_value, 0u8..10, 0u8..9).prop_map(|(v, k, n)| {
        let (mut prelude, mut line) = with_variable(v, k % 8, n);
        // kinds 8 and 9: the definition itself is the last line (`ürün = 12 march`)
        if k >= 8 {
            line = prelude.pop().unwrap();
        }
        GenLine { prelude, line, lang: "en".into(), tz: None, src: "C03".into() }
    });
    // two names of which one is a word-prefix of the other, both bound; the line starts with the longer one
    let pair_value = || prop_oneof![
        crate::c05::value_strategy().prop_map(|v| Line::new(vec![Tok::num(v)])),
        crate::c06::money_lit(crate::c06::rated_key()).prop_map(|m| Line::new(vec![m.tok()])),
    ];
    let c03b = (pair_value(), pair_value(), 0u8..4, 0u8..4).prop_map(|(a, b, pair, kind)| {
        let (short, long) = [("rent", "rent total"), ("net", "net amount"), ("ürün", "ürün ölçü"), ("total", "total cost")][pair as usize % 4];
        let def = |name: &str, v: Line| {
            let mut l = Line::default();
            for w in name.split(' ') {
                l.push(Tok::word(w, Class::Var));
            }
            l.push(Tok::op('='));
            l.extend(v);
            l
        };
        let mut u = Line::default();
        for w in long.split(' ') {
            u.push(Tok::word(w, Class::Var));
        }
        match kind % 4 {
            0 => {}
            1 => {
                u.push(Tok::op('-'));
                u.push(Tok::word(short, Class::Var));
            }
            2 => {
                u.push(Tok::op('*'));
                u.push(Tok::num(NumLit::new(2.0)));
            }
            _ => {
                u.push(Tok::op('+'));
                u.push(Tok::word(short, Class::Var));
                u.push(Tok::op('+'));
                for w in long.split(' ') {
                    u.push(Tok::word(w, Class::Var));
                }
            }
        }
        GenLine { prelude: vec![def(short, a), def(long, b)], line: u, lang: "en".into(), tz: None, src: "C03".into() }
    });
    // sentences with the operator words of either language (times, minus, add / çarpı, eksi, topla ...)
    let c19 = crate::c19::opword_strategy().prop_map(|(line, lang)| GenLine { prelude: vec![], line, lang, tz: None, src: "C19".into() });
    prop_oneof![
        2 => c19,
        3 => c02,
        2 => c05,
        3 => c06,
        2 => c09,
        2 => c10,
        2 => c11,
        2 => c12,
        1 => c13,
        1 => c14,
        2 => c03,
        1 => c03b,
    ]
}
