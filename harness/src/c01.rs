//! C01 — evaluation is total: no panic, no hang, status true, one slot per input line in order.

use crate::common::{Cfg, EvalOut, Slot};
use crate::engine::{Acc, Ctx, Prop, Tier, Verdict, Worker};
use crate::vocab::vocab;
use proptest::prelude::*;
use serde::{Deserialize, Serialize};

#[derive(Clone, Debug, Serialize, Deserialize)]
pub struct Case {
    pub cfg: Cfg,
    pub lang: String,
    pub text: String,
    /// which generator family produced it: "unicode" | "soup" | "mutant" | "corpus"
    pub family: String,
}

/// Independent line splitter: LF or CRLF separate lines, a lone CR does not.
pub fn split_lines(text: &str) -> Vec<String> {
    let ch: Vec<char> = text.chars().collect();
    let mut out = vec![];
    let mut cur = String::new();
    let mut i = 0;
    while i < ch.len() {
        if ch[i] == '\n' {
            out.push(std::mem::take(&mut cur));
            i += 1;
        } else if ch[i] == '\r' && i + 1 < ch.len() && ch[i + 1] == '\n' {
            out.push(std::mem::take(&mut cur));
            i += 2;
        } else {
            cur.push(ch[i]);
            i += 1;
        }
    }
    out.push(cur);
    out
}

fn time_dependent(line: &str) -> bool {
    let l = line.to_lowercase();
    l.contains("now") || l.contains("imdi") || l.contains("şimdi")
}

pub struct Total;

/// Known-finding signatures: (call-site substring, id). Matched on the panic call site.
pub const KNOWN_PANIC_SITES: &[(&str, &str)] = &[];

fn classify_panic(site: &str) -> Option<&'static str> {
    for (s, id) in KNOWN_PANIC_SITES {
        if site.contains(s) {
            return Some(id);
        }
    }
    None
}

pub fn check_text(w: &mut Worker, c: &Case) -> Verdict {
    let rendered = format!("[{} lang={:?}] {:?}", c.cfg.label(), c.lang, c.text);
    let lines = split_lines(&c.text);
    let mut acc = Acc::new();
    let today0 = chrono::Utc::now().date_naive();
    let out: EvalOut = match w.eval(&c.cfg, &c.lang, &c.text) {
        Ok(o) => o,
        Err(p) => {
            let kf = classify_panic(&p.site);
            acc.fail_kf(format!("panic at {} :: {} ({})", p.site, p.message, p.location), kf);
            return acc.finish(rendered).class("panic");
        }
    };
    if !out.status {
        acc.fail("status is false".to_string());
    }
    if out.slots.len() != lines.len() {
        acc.fail(format!("{} result slots for {} input lines", out.slots.len(), lines.len()));
    }
    // slots are in input order and independent: a line without '=' that comes before any
    // assignment evaluates exactly as it does alone
    let mut compared = 0;
    if acc.ok() && lines.len() > 1 {
        for (i, l) in lines.iter().enumerate() {
            if l.contains('=') {
                break;
            }
            if time_dependent(l) {
                continue;
            }
            let alone = match w.eval(&c.cfg, &c.lang, l) {
                Ok(o) => o,
                Err(p) => {
                    acc.fail_kf(format!("line {:?} alone: panic at {} :: {}", l, p.site, p.message), classify_panic(&p.site));
                    break;
                }
            };
            compared += 1;
            if alone.slots.len() != 1 {
                acc.fail(format!("line {:?} alone gives {} slots", l, alone.slots.len()));
                break;
            }
            if !alone.slots[0].same(&out.slots[i]) {
                // midnight rollover guard
                if chrono::Utc::now().date_naive() != today0 {
                    return Verdict::skip("date changed during the case", rendered);
                }
                acc.fail(format!("slot {} differs from the line evaluated alone: in text {} / alone {}", i, out.slots[i].brief(), alone.slots[0].brief()));
                break;
            }
        }
    }
    let some = out.slots.iter().filter(|s| !matches!(s, Slot::Nothing)).count();
    let oks = out.slots.iter().filter(|s| matches!(s, Slot::Ok { .. })).count();
    let errs = out.slots.iter().filter(|s| matches!(s, Slot::Err(_))).count();
    let known_lang = vocab().langs.contains_key(&c.lang);
    let nontrivial = some >= 1 && (c.family != "unicode" || lines.len() >= 2);
    let fam: &'static str = match c.family.as_str() {
        "unicode" => "family:unicode",
        "soup" => "family:soup",
        "mutant" => "family:mutant",
        "fuzz" => "family:fuzz",
        "script" => "family:script",
        "long" => "family:long-line",
        _ => "family:corpus",
    };
    acc.finish(rendered)
        .nt(nontrivial)
        .class(fam)
        .class_if(!known_lang, "lang:unknown")
        .class_if(c.lang == "tr", "lang:tr")
        .class_if(c.lang == "en", "lang:en")
        .class_if(lines.len() >= 2, "multi-line")
        .class_if(c.text.contains("\r\n"), "has-crlf")
        .class_if(oks > 0, "slot:ok")
        .class_if(errs > 0, "slot:err")
        .class_if(some < out.slots.len(), "slot:nothing")
        .class_if(compared > 0, "slots-compared-with-standalone")
        .class_if(c.cfg != Cfg::default(), "non-default-config")
}

impl Prop for Total {
    type Case = Case;
    fn name(&self) -> &'static str {
        "total"
    }
    fn check(&self, w: &mut Worker, c: &Case) -> Verdict {
        check_text(w, c)
    }
}

// ---- generators ------------------------------------------------------------------------------

pub fn fragments() -> Vec<String> {
    let v = vocab();
    let mut f: Vec<String> = vec![];
    let fixed: &[&str] = &[
        // numbers
        "0", "1", "2", "5", "10", "12", "15", "24", "25", "28", "29", "30", "31", "60", "100", "365", "1000", "2020", "2021", "1970", "9999", "1,5", "1.5", "1.000", "1.000,50", "0,5", "-1", "+3", "1e3", "1_000", ".5", ",5", "5,",
        "99999999999999999999", "9999999999999", "2147483647", "2147483648", "4294967296", "9223372036854775807", "9223372036854775808", "18446744073709551616", "1.2.3", "1,2,3", "1..2", "0x10", "0xFF", "0XAB", "0b101", "0o17", "0xFFFFFFFFFFFFFFFFFF",
        "0x7FFFFFFFFFFFFFFF", "0x8000000000000000", "0b1111111111111111111111111111111111111111111111111111111111111111111111", "0o7777777777777777777777777777", "0x", "0b2", "1k", "2M", "3G", "4T", "5P", "6Z", "7Y", "1K", "1,5k", "1kk", "253402300800", "-62135596801",
        "99999999999999", "1e400",
        // operators / punctuation
        "+", "-", "*", "/", "(", ")", "=", "%", "^", "!", "?", ";", "'", "&", "_", "−", ":", ",", ".", "#", "\t", "\r", "{", "}", "[", "]", "<", ">", "|", "~", "@", "$", "€", "₺", "£", "¥", "\\", "\"", "((", "))", "()", "==", "--", "++", "**", "//",
        // keywords
        "of", "on", "off", "is", "what", "at", "date", "unix", "unixtime", "unixtimestamp", "to", "as", "in", "into", "am", "pm", "AM", "PM", "arası", "is what % of", "of what", "hex", "octal", "binary", "decimal", "hexadecimal",
        // times
        "10:30", "23:59:59", "24:00", "12:60", "9:5", "3pm", "11:30 am", "12 am", "0:00", "00:00:00", "12:30 pm", "1:00", "at 24", "at 25", "at 11:30", "at 99",
        // zones
        "GMT", "GMT+3", "GMT-5:30", "GMT+0530", "GMT+25", "GMT+19:59", "gmt", "UTC", "EST", "CET", "IST", "CHADT", "ChST", "WST", "TMT", "MART", "EAST", "cat", "eat", "west",
        // atoms
        "[NUMBER:5]", "[NUMBER:x]", "[NUMBER:1e400]", "[NUMBER:-0]", "[NUMBER:NaN]", "[NUMBER:inf]", "[PERCENT:5]", "[PERCENT:x]", "[MONEY:5;usd]", "[MONEY:5]", "[MONEY:x;usd]", "[MONEY:5;zzz]", "[MONEY:;]", "[TIME:3600]", "[TIME:86399]", "[TIME:86400]", "[TIME:99999]",
        "[TIME:abc]", "[TIME:-1]", "[TIME:4294967296]", "[OPERATOR:+]", "[OPERATOR:]", "[OPERATOR:xyz]", "[FOO:1]", "[NUMBER:]", "[:]", "[NUMBER:5", "NUMBER:5]", "[DATE:1]", "[MONTH:1]", "[]",
        // fields
        "{NUMBER:n}", "{TEXT:t}", "{TEXT:t:kg}", "{GROUP:g:duration_group}", "{GROUP:g:nogroup}", "{GROUP:g}", "{MONEY:m}", "{PERCENT:p}", "{DATE:d}", "{TIME:t}", "{DURATION:d}", "{MONTH:m}", "{TIMEZONE:z}", "{DYNAMIC_TYPE:s}", "{DYNAMIC_TYPE:s:memory}",
        "{NUMBER_OR_MONEY:x}", "{DATE_TIME:x}", "{FOO:x}", "{NUMBER:}", "{:}", "{NUMBER:n", "{}", "{NUMBER:n:extra:more}",
        // variables
        "x", "total", "x =", "total cost =", "= 5", "x = x + 1",
        // percent
        "5%", "%5", "-5%", "1.2.3%", "%1,5", "10 %", "%", "100%", "0%", "%0", "%1.2.3", "5%%",
        // money
        "$5", "5$", "$1k", "€10", "10 usd", "10 try", "10 tl", "5 лв", "$-5", "-$5", "10 dollar", "1k usd", "1,5M eur", "10usd", "$", "10 all", "usd 10", "$1.2.3", "$1e5",
        // dates
        "12/12/2020", "31/12/9999", "1/1/1", "0/0/0", "29/2/2021", "29/2/2020", "31/4/2021", "12 feb", "30 feb", "31 jan 2021", "jan 31, 2021", "15 nov 2021", "1 jan 300000", "1/1/300000", "1/1/-300000", "32/13/2020",
        "today", "tomorrow", "yesterday", "now", "bugün", "yarın", "dün", "şimdi",
        // durations
        "1 day", "2 weeks", "3 months", "12 months", "1 year", "10 years", "5 hours", "90 minutes", "30 seconds", "99999999999999999999 days", "9999999999999 years", "999999999999 weeks", "300000 years", "-5 days", "0 days",
        "1 gün", "2 hafta", "3 ay", "1 yıl", "5 saat", "10 dakika", "30 saniye",
        // units
        "5 kg", "1 inch", "3 km", "1 byte", "2 GB", "1 mile", "10 cm to m", "1 kg to lb", "1 inch to kg",
        // text
        "hello", "İ", "ı", "ß", "ǅ", "ﬁ", "日本", "😀", "é", "İstanbul", "ıııı", "ŞŞŞ", "şğü", "a", "Z", "kg", "m", "g",
    ];
    for s in fixed {
        f.push(s.to_string());
    }
    for l in v.langs.values() {
        for k in l.constants.keys().chain(l.long_months.keys()).chain(l.short_months.keys()).chain(l.alias.keys()) {
            f.push(k.clone());
        }
        for g in l.word_group.values() {
            for wd in g {
                f.push(wd.clone());
            }
        }
    }
    for u in &v.units {
        for n in u.names.iter().chain(u.parse_names.iter()) {
            f.push(n.clone());
        }
    }
    for c in &v.rated {
        f.push(c.key.clone());
        f.push(c.code.clone());
        f.push(c.symbol.clone());
    }
    for a in v.currency_alias.keys() {
        f.push(a.clone());
    }
    for (i, z) in v.zones.keys().enumerate() {
        if i % 4 == 0 {
            f.push(z.clone());
        }
    }
    f.sort();
    f.dedup();
    f
}

fn special_chars() -> Vec<char> {
    "0123456789+-*/()=%#[]{}:;,.$€₺ \t\r_!?'&^−İıßǅﬁ日😀\u{301}\u{200b}\u{feff}éşğüöçЛв".chars().collect()
}

pub fn unicode_line() -> impl Strategy<Value = String> {
    let specials = special_chars();
    let ch = prop_oneof![
        5 => prop::sample::select(specials),
        2 => prop::char::range(' ', '~'),
        1 => any::<char>().prop_filter("no line feed", |c| *c != '\n'),
    ];
    prop::collection::vec(ch, 0..60).prop_map(|v| v.into_iter().collect::<String>())
}

pub fn soup_line(max_frags: usize) -> impl Strategy<Value = String> {
    let frags = fragments();
    let n = frags.len();
    prop::collection::vec((0..n, prop::bool::weighted(0.75)), 0..max_frags).prop_map(move |items| {
        let mut s = String::new();
        for (i, sp) in items {
            s.push_str(&frags[i]);
            if sp {
                s.push(' ');
            }
        }
        s.chars().filter(|c| *c != '\n').take(400).collect()
    })
}

/// a fixed panel of configurations (cached calculators) ...
pub fn cfg_panel() -> Vec<Cfg> {
    let s = |x: &str| Some(x.to_string());
    vec![
        Cfg::seps(".", ","),
        Cfg::seps(".", ""),
        Cfg::seps(",", ""),
        Cfg::seps(",", "."),
        Cfg { dec: s(","), thou: s(","), ..Cfg::default() },
        Cfg { dec: s(""), thou: s(""), ..Cfg::default() },
        Cfg { dec: s(""), thou: s("."), ..Cfg::default() },
        Cfg { dec: s("::"), thou: s("'"), ..Cfg::default() },
        Cfg { dec: s("٫"), thou: s("٬"), ..Cfg::default() },
        Cfg { dec: s(" "), thou: s(" "), ..Cfg::default() },
        Cfg { dec: s("5"), thou: s("0"), ..Cfg::default() },
        Cfg { dec: s("-"), thou: s("+"), ..Cfg::default() },
        Cfg { dec: s("a"), thou: s("b"), ..Cfg::default() },
        Cfg { tz: s("EST"), ..Cfg::default() },
        Cfg { tz: s("NPT"), ..Cfg::default() },
        Cfg { tz: s("CHADT"), dec: s("."), thou: s(","), ..Cfg::default() },
        Cfg { tz: s("GMT-5:30"), ..Cfg::default() },
        Cfg { tz: s("GMT+19:59"), ..Cfg::default() },
        Cfg { tz: s("GMT-11"), num: Some((0, false, false)), ..Cfg::default() },
        Cfg { tz: s("cet"), ..Cfg::default() },
        Cfg { tz: s("GMT+25"), ..Cfg::default() },
        Cfg { tz: s(""), ..Cfg::default() },
        Cfg { num: Some((0, true, true)), pct: Some((0, false, true)), ..Cfg::default() },
        Cfg { num: Some((9, false, true)), pct: Some((9, true, false)), money: Some((true, false)), ..Cfg::default() },
        Cfg { num: Some((10, true, true)), ..Cfg::default() },
        Cfg { num: Some((20, false, true)), pct: Some((39, false, true)), ..Cfg::default() },
        Cfg { num: Some((255, false, true)), pct: Some((255, true, true)), money: Some((false, false)), ..Cfg::default() },
        Cfg { num: Some((100, true, false)), dec: s("."), thou: s(""), ..Cfg::default() },
        Cfg { money: Some((true, true)), ..Cfg::default() },
        Cfg { money: Some((false, false)), dec: s("."), thou: s(","), tz: s("IST"), ..Cfg::default() },
    ]
}

/// ... plus, rarely, an arbitrary combination (each needs a freshly built calculator, ~40 ms)
pub fn cfg_strategy() -> impl Strategy<Value = Cfg> {
    let seps = prop_oneof![
        6 => Just((None, None)),
        6 => prop::sample::select(vec![(",", "."), (".", ","), (".", ""), (",", "")]).prop_map(|(d, t)| (Some(d.to_string()), Some(t.to_string()))),
        3 => prop::sample::select(vec![(",", ","), (".", "."), ("", ""), ("", "."), ("::", "'"), ("٫", "٬"), (" ", " "), ("5", "0"), ("-", "+"), ("a", "b"), ("€", "日"), ("#", "="), ("(", ")")]).prop_map(|(d, t)| (Some(d.to_string()), Some(t.to_string()))),
    ];
    let tz = prop_oneof![
        6 => Just(None),
        4 => prop::sample::select(vec!["EST", "CET", "IST", "NPT", "CHADT", "GMT+3", "GMT-5:30", "GMT+0530", "GMT-11", "GMT+19:59", "UTC", "GMT"]).prop_map(|s| Some(s.to_string())),
        2 => prop::sample::select(vec!["cet", "XXX", "", "GMT+25", "ChST", "Europe/Paris", "+3", "GMT+", "İ"]).prop_map(|s| Some(s.to_string())),
    ];
    let numcfg = || {
        prop_oneof![
            6 => Just(None),
            4 => (0u8..=9, any::<bool>(), any::<bool>()).prop_map(Some),
            2 => (any::<u8>(), any::<bool>(), any::<bool>()).prop_map(Some),
        ]
    };
    let money = prop_oneof![6 => Just(None), 2 => (any::<bool>(), any::<bool>()).prop_map(Some)];
    let arbitrary = (seps, tz, numcfg(), numcfg(), money, 0u8..2).prop_map(|((dec, thou), tz, num, pct, money, order)| Cfg { dec, thou, tz, num, pct, money, order });
    prop_oneof![
        50 => Just(Cfg::default()),
        40 => prop::sample::select(cfg_panel()),
        6 => prop::sample::select(cfg_panel()).prop_map(|mut c| {
            c.order = 1;
            c
        }),
        4 => arbitrary,
    ]
}

pub fn lang_strategy() -> impl Strategy<Value = String> {
    prop_oneof![
        6 => Just("en".to_string()),
        3 => Just("tr".to_string()),
        2 => prop::sample::select(vec!["", "xx", "EN", "en-US", "de", "Tr", "en ", "日本"]).prop_map(|s| s.to_string()),
    ]
}

pub fn text_strategy(line: BoxedStrategy<String>, max_lines: usize) -> impl Strategy<Value = String> {
    (prop::collection::vec((line, any::<bool>()), 1..=max_lines), any::<bool>()).prop_map(|(lines, trailing)| {
        let mut s = String::new();
        let n = lines.len();
        for (i, (l, crlf)) in lines.into_iter().enumerate() {
            s.push_str(&l);
            if i + 1 < n || trailing {
                s.push_str(if crlf { "\r\n" } else { "\n" });
            }
        }
        s
    })
}

/// extreme operands that replace a number of a valid line (family "mutant")
pub const EXTREMES: [&str; 30] = [
    "0", "-1", "1", "12", "13", "24", "25", "28", "29", "30", "31", "32", "59", "60", "61", "99", "100", "365", "366", "9999", "10000", "1e19", "99999999999999999999", "2147483647", "2147483648", "4294967296", "9223372036854775807", "9223372036854775808", "253402300800",
    "0,0000001",
];

/// a valid line of the other properties' generators with one to three token-level mutations
/// (delete, duplicate, swap with the neighbour, replace a numeric token by an extreme one, glue to the neighbour)
pub fn mutant_text() -> impl Strategy<Value = (Cfg, String, String)> {
    (crate::mixed::any_line(), 0usize..4, prop::collection::vec((0u8..6, any::<u16>(), 0usize..EXTREMES.len()), 1..4)).prop_map(|(g, sep, muts)| {
        let (dec, thou) = crate::common::READ_SEPS[sep];
        let cfg = g.cfg(dec, thou);
        let mut lines: Vec<Vec<String>> = g
            .all_lines()
            .iter()
            .map(|l| l.toks.iter().map(|t| format!("{}{}", " ".repeat(t.space as usize), t.text(dec, thou))).collect::<Vec<String>>())
            .collect();
        let last = lines.len() - 1;
        for (kind, pos, ex) in muts {
            let toks = &mut lines[last];
            if toks.is_empty() {
                break;
            }
            let i = (pos as usize * toks.len()) >> 16;
            match kind {
                0 => {
                    toks.remove(i);
                }
                1 => {
                    let t = toks[i].clone();
                    toks.insert(i, t);
                }
                2 => {
                    if i + 1 < toks.len() {
                        toks.swap(i, i + 1);
                    }
                }
                3 | 4 => {
                    // replace the digits of the nearest numeric token at or after i (else before) by an extreme
                    let n = toks.len();
                    let idx = (i..n).chain(0..i).find(|k| toks[*k].chars().any(|c| c.is_ascii_digit()));
                    if let Some(k) = idx {
                        let t = toks[k].clone();
                        let start = t.find(|c: char| c.is_ascii_digit()).unwrap();
                        let end = t[start..].find(|c: char| !(c.is_ascii_digit() || c == ',' || c == '.')).map(|e| start + e).unwrap_or(t.len());
                        toks[k] = format!("{}{}{}", &t[..start], EXTREMES[ex], &t[end..]);
                    }
                }
                _ => {
                    // glue: remove the blanks in front of the token
                    let t = toks[i].trim_start().to_string();
                    toks[i] = t;
                }
            }
        }
        let text = lines.into_iter().map(|t| t.concat()).collect::<Vec<_>>().join("\n");
        (cfg, g.lang.clone(), text)
    })
}

/// small scripts: assignments whose right-hand side may fail at parse time or at evaluation time (type
/// mismatch), followed by uses of the name in every operand position
pub fn script_text() -> impl Strategy<Value = String> {
    let names = prop::sample::select(vec!["x", "total", "total cost", "rent", "ürün", "q1", "item 2", "tax-rate", "may"]);
    let value = prop::sample::select(vec![
        "5", "-3", "1,5", "0", "1 day", "2 hours", "11:30", "10 usd", "$5", "3 kg", "1 inch", "12/12/2020", "10%", "0x10", "today", "15:00 EST", "1 jan 2021", "2 weeks 3 days", "(", "", "1 +", "* 2", "hello", "99999999999999999999", "1 byte",
    ]);
    let op = prop::sample::select(vec!["+", "-", "*", "/", "", "to", "as", "of", "on", "in"]);
    // (wave 9) names bound to a date-time, and a name directly followed by a zone word
    let stamp = prop::sample::select(vec!["1646401739 to date", "1 jan 2021 at 10:30", "12/12/2020 at 11:30:15", "today at 9:00", "11:30", "1 jan 2021"]);
    let zone = prop::sample::select(vec!["EST", "GMT+3", "utc", "CET", "to EST", "in GMT+3"]);
    let line = (0u8..13, names, value.clone(), op, value, stamp, zone).prop_map(|(k, n, a, o, b, st, z)| match k {
        10 | 11 => format!("{} = {}", n, st),
        12 => format!("{} {}", n, z),
        0 | 1 => format!("{} = {}", n, a),
        2 | 3 => format!("{} = {} {} {}", n, a, o, b),
        4 => format!("{} {} {}", a, o, n),
        5 => format!("{} {} {}", n, o, b),
        6 => format!("{} {}", a, n),
        7 => format!("-{}", n),
        8 => format!("{} = {} {} {}", n, n, o, b),
        _ => n.to_string(),
    });
    prop::collection::vec(line, 2..7).prop_map(|l| l.join("\n"))
}

/// long repetitive lines (up to ~1200 characters, several hundred tokens): one fragment repeated 20-200 times
pub fn long_text() -> impl Strategy<Value = String> {
    let unit = prop::sample::select(vec![
        "1", "1 hour", "3 hours", "2 km", "5 usd", "$5", "10%", "x", "total cost", "(1", "1)", "(2)", "-1", "1,5", "10:30", "1 day", "12/12/2020", "0x1", "1k", "ş", "€", "1 kg", "jan", "5 mb", "to", "#",
    ]);
    let joiner = prop::sample::select(vec![" + ", " - ", " * ", " / ", " ", "+", ", ", " to ", " = "]);
    (unit, joiner, 20usize..200, prop::option::weighted(0.4, prop::sample::select(vec!["x = 5", "total cost = 3 hours", "x = 1 day + 5"])), prop::option::weighted(0.4, prop::sample::select(vec!["x", "3 hours", "total cost * 2", "1 + 1"]))).prop_map(|(u, j, n, pre, post)| {
        let mut body = String::new();
        for i in 0..n {
            if i > 0 {
                body.push_str(j);
            }
            body.push_str(u);
            if body.len() > 1100 {
                break;
            }
        }
        let mut lines = vec![];
        if let Some(p) = pre {
            lines.push(p.to_string());
        }
        match post {
            Some(p) if body.len() < 1000 => lines.push(format!("{}{}{}", body, j, p)),
            Some(p) => {
                lines.push(body);
                lines.push(p.to_string());
            }
            None => lines.push(body),
        }
        lines.join("\n")
    })
}

pub fn case_strategy(tier: Tier) -> impl Strategy<Value = Case> {
    let (frags, lines) = match tier {
        Tier::Quick => (14, 5),
        Tier::Thorough => (40, 8),
    };
    let fam = prop_oneof![
        1 => text_strategy(unicode_line().boxed(), lines).prop_map(|t| ("unicode".to_string(), t)),
        3 => text_strategy(soup_line(frags).boxed(), lines).prop_map(|t| ("soup".to_string(), t)),
    ];
    let generic = (cfg_strategy(), lang_strategy(), fam).prop_map(|(cfg, lang, (family, text))| Case { cfg, lang, text, family });
    let mutant = (mutant_text(), lang_strategy(), 0u8..8).prop_map(|((cfg, lang, text), other, pick)| Case { cfg, lang: if pick == 0 { other } else { lang }, text, family: "mutant".to_string() });
    let script = (script_text(), lang_strategy()).prop_map(|(text, lang)| Case { cfg: Cfg::default(), lang, text, family: "script".to_string() });
    let long = (long_text(), lang_strategy(), cfg_strategy()).prop_map(|(text, lang, cfg)| Case { cfg, lang, text, family: "long".to_string() });
    prop_oneof![12 => generic, 4 => mutant, 3 => script, 1 => long]
}

/// the panic witnesses of DESIGN.md section 6 plus boundary texts for the slot count
pub fn corpus() -> Vec<Case> {
    let mut out = vec![];
    let texts: &[&str] = &[
        "", "\n", "\r\n", "1\r\n2\r\n", "1\r2", "\r", "1\n\n2", "a = 1\na + 1\n\nfoo\na * 2", "[NUMBER:x]", "[PERCENT:x]", "[MONEY:5]", "[TIME:99999]", "[TIME:abc]", "[OPERATOR:]", "0xFFFFFFFFFFFFFFFFFF", "0b1111111111111111111111111111111111111111111111111111111111111111111111",
        "0o7777777777777777777777777777", "1.2.3%", "%1.2.3", "15 nov 2021 + 1 month", "31 jan 2021 + 1 month", "29 feb 2020 + 1 year", "15 mar 2021 - 3 months", "1/1/2040 at 24", "1/1/2040 at 11:30 as unix", "99999999999999999999 days", "9999999999999 years",
        "99999999999999 to date", "1,5", "1 jan 300000 + 1 day", "today + 99999999999 days", "10:30 + 99999999999999 hours", "1/1/2040 at 99", "999999999999 weeks", "1 kg to", "to", "=", "= =", "x =", "(", ")", "((((((((((", "1 +", "+ +", "* 5", "$", "%", "#", "# comment", "   ",
        "{NUMBER:n}", "{GROUP:g}", "{GROUP:g:duration_group}", "12/12/2020 to 13/12/2020", "10:30 EST to CET", "5 kg to lb", "1 inch to kg", "10 usd to try", "253402300800 to date", "-62135596801 to date", "1e400", "[NUMBER:1e400] * [NUMBER:1e400]", "[NUMBER:NaN]", "[NUMBER:inf] to hex",
        "-0 to hex", "1e30 to binary", "İ 12 may", "ıııı 15:00 EST", "şğü 5", "€5", "5 € + 3 €",
    ];
    for lang in ["en", "tr", "xx", ""] {
        for t in texts {
            out.push(Case { cfg: Cfg::default(), lang: lang.to_string(), text: t.to_string(), family: "corpus".into() });
        }
    }
    // configurations
    for cfg in [
        Cfg { num: Some((10, true, true)), ..Cfg::default() },
        Cfg { num: Some((255, false, true)), pct: Some((40, true, false)), ..Cfg::default() },
        Cfg { dec: Some("".into()), thou: Some("".into()), ..Cfg::default() },
        Cfg { dec: Some("::".into()), thou: Some("'".into()), ..Cfg::default() },
        Cfg { tz: Some("GMT+19:59".into()), ..Cfg::default() },
        Cfg { tz: Some("GMT-11".into()), ..Cfg::default() },
    ] {
        for t in ["1,5", "1.5", "1000000,123456789", "[NUMBER:0.995]", "10%", "$5,5", "5,5 kg", "10:30", "10:30 to EST", "1/1/2020 at 10", "0 to date", "[NUMBER:1e300]", "[NUMBER:-1e300]", "1::5"] {
            out.push(Case { cfg: cfg.clone(), lang: "en".into(), text: t.to_string(), family: "corpus".into() });
        }
    }
    out
}

pub fn run(ctx: &Ctx) {
    ctx.rule("generated texts of 1-8 lines (LF/CRLF, optional trailing separator) from three families - arbitrary Unicode, token soup over a vocabulary built from config.json and the grammar (numbers in every literal form incl. over-long based literals, operators and alias characters, keywords of both languages, units, currencies, zones, months, times, atoms and fields with well-formed and malformed payloads), mutated valid lines (token deleted / duplicated / swapped / glued, numbers replaced by extreme operands), small scripts of assignments that fail at parse or evaluation time followed by uses of the name, long repetitive lines of up to ~1200 characters / several hundred tokens - crossed with language tags (en, tr, unknown) and configurations reachable through the setters (separators incl. equal/empty/multi-byte, default zone incl. invalid strings, number/percent digits over the u8 range, money flags); oracle: no panic (call site attributed), returns within the watchdog, status true, slot count = independent LF/CRLF line count, every line before the first assignment evaluates exactly as it does alone; non-trivial = at least one slot is not empty and the text is multi-line or comes from the soup/mutant/corpus families; distinct = distinct (configuration, language, text)");
    ctx.assume("termination is decided by a 20 s in-process watchdog confirmed by a 120 s child process");
    ctx.assume("lines mentioning now/şimdi are excluded from the standalone comparison (time of day)");
    ctx.run_table(&Total, "corpus", corpus(), false);
    let tier = ctx.tier;
    ctx.run_generated(&Total, ctx.tier.pick(60_000, 2_000_000), || case_strategy(tier));
    if tier == Tier::Thorough {
        crate::fuzzdec::campaign(ctx, "C01", "c01_total");
    }
}

pub fn replay(w: &mut Worker, sub: &str, case: &serde_json::Value) -> Option<Verdict> {
    match sub {
        "total" => crate::engine::replay_case(&Total, w, case),
        _ => None,
    }
}
