//! C13 — based integer literals and base conversion round-trip.

use crate::common::{Cfg, Slot, NT, V};
use crate::engine::{Acc, Ctx, Prop, Verdict, Worker};
use crate::lines::{Class, Line, Tok};
use proptest::prelude::*;
use serde::{Deserialize, Serialize};

/// a non-negative integer written in some base (fraction only for base 10)
#[derive(Clone, Debug, PartialEq, Serialize, Deserialize)]
pub struct Src {
    pub n: u64,
    /// 10, 16, 8 or 2
    pub base: u8,
    /// fractional digits for base 10 (".xyz"), e.g. Some("5") = n.5
    pub frac: Option<String>,
    pub prefix_upper: bool,
    /// hex digit case: 0 lower, 1 upper, 2 mixed
    pub digit_case: u8,
    /// leading zeros written after the prefix of a based literal (`0x00FF`, a binary word padded to 64 digits and beyond)
    #[serde(default)]
    pub pad: u8,
}

/// independent radix formatter
pub fn digits(mut n: u64, base: u64) -> String {
    if n == 0 {
        return "0".into();
    }
    let mut v = vec![];
    while n > 0 {
        v.push(std::char::from_digit((n % base) as u32, base as u32).unwrap());
        n /= base;
    }
    v.iter().rev().collect()
}

/// independent radix parser of a printed literal: returns (value, base)
pub fn parse_printed(s: &str) -> Option<(u64, u8)> {
    let (base, body) = if let Some(b) = s.strip_prefix("0x") {
        (16u64, b)
    } else if let Some(b) = s.strip_prefix("0o") {
        (8, b)
    } else if let Some(b) = s.strip_prefix("0b") {
        (2, b)
    } else {
        return None;
    };
    if body.is_empty() {
        return None;
    }
    let mut v: u64 = 0;
    for c in body.chars() {
        let d = c.to_digit(base as u32)? as u64;
        v = v.checked_mul(base)?.checked_add(d)?;
    }
    Some((v, base as u8))
}

impl Src {
    pub fn text(&self) -> String {
        match self.base {
            10 => match &self.frac {
                Some(f) => format!("{},{}", self.n, f),
                None => format!("{}", self.n),
            },
            b => {
                let p = match (b, self.prefix_upper) {
                    (16, false) => "0x",
                    (16, true) => "0X",
                    (8, false) => "0o",
                    (8, true) => "0O",
                    (_, false) => "0b",
                    (_, true) => "0B",
                };
                let d = digits(self.n, b as u64);
                let d: String = match self.digit_case % 3 {
                    0 => d,
                    1 => d.to_uppercase(),
                    _ => d.chars().enumerate().map(|(i, c)| if i % 2 == 0 { c.to_ascii_uppercase() } else { c }).collect(),
                };
                format!("{}{}{}", p, "0".repeat(self.pad as usize), d)
            }
        }
    }
    /// the value(s) the literal denotes after rounding to the nearest integer (two on an exact tie)
    pub fn rounded(&self) -> Vec<u64> {
        match &self.frac {
            None => vec![self.n],
            Some(f) => {
                let first = f.chars().next().and_then(|c| c.to_digit(10)).unwrap_or(0);
                let rest_nonzero = f.chars().skip(1).any(|c| c != '0');
                if first > 5 || (first == 5 && rest_nonzero) {
                    vec![self.n + 1]
                } else if first < 5 {
                    vec![self.n]
                } else {
                    vec![self.n, self.n + 1]
                }
            }
        }
    }
    pub fn value(&self) -> f64 {
        match &self.frac {
            None => self.n as f64,
            Some(f) => format!("{}.{}", self.n, f).parse().unwrap(),
        }
    }
    pub fn nt(&self) -> NT {
        match self.base {
            16 => NT::Hex,
            8 => NT::Octal,
            2 => NT::Binary,
            _ => NT::Decimal,
        }
    }
    pub fn tok(&self) -> Tok {
        if self.base == 10 {
            // a decimal literal follows the separator convention it is rendered under
            return Tok::num(crate::lines::NumLit { v: self.value(), sign: 0, group: false });
        }
        Tok { pre: self.text(), num: None, post: String::new(), class: Class::Based, space: 1 }
    }
}

pub const TARGETS: [(&str, u8); 5] = [("hex", 16), ("hexadecimal", 16), ("octal", 8), ("binary", 2), ("decimal", 10)];

#[derive(Clone, Debug, Serialize, Deserialize)]
pub enum Shape {
    Literal(Src),
    /// N [to] target
    Convert(Src, bool, u8),
    /// lhs op rhs  (op: 0 +, 1 -, 2 *)
    Arith(Src, u8, Src),
    /// `x = A op B` (A a based literal, B decimal and possibly fractional; op 0 + 1 - 2 * 3 /) followed by `x [to] target`
    VarConvert(Src, u8, Src, bool, u8),
    /// `P% of|on|off <based literal> [to] target` (phrase 0 of, 1 on, 2 off): N is the value of the phrase
    PctConvert(u8, u32, Src, bool, u8),
    /// `A N [to] target`: another operand stands in front of N without an operator (it is added: A + N)
    Juxtaposed(Src, Src, bool, u8),
}

#[derive(Clone, Debug, Serialize, Deserialize)]
pub struct Case {
    pub shape: Shape,
    /// Arith: bit 0 = no blank before the operator, bit 1 = no blank after it
    #[serde(default)]
    pub glue: u8,
    /// set_number_configuration(digits, remove_fract_if_zero, use_fract_rounding): a print setting, it must not change
    /// which integer a conversion yields
    #[serde(default)]
    pub num: Option<(u8, bool, bool)>,
}

pub fn case_line(c: &Case) -> Line {
    let mut l = Line::default();
    match &c.shape {
        Shape::Literal(s) => l.push(s.tok()),
        Shape::Convert(s, to, t) => {
            l.push(s.tok());
            if *to {
                l.push(Tok::word("to", Class::Conn));
            }
            l.push(Tok::word(TARGETS[*t as usize % 5].0, Class::Keyword));
        }
        Shape::Arith(a, op, b) => {
            l.push(a.tok());
            l.push(Tok::op(['+', '-', '*'][*op as usize % 3]).sp(if c.glue & 1 != 0 { 0 } else { 1 }));
            l.push(b.tok().sp(if c.glue & 2 != 0 { 0 } else { 1 }));
        }
        Shape::PctConvert(ph, p, src, to, t) => {
            l.push(Tok { pre: format!("{}%", p), num: None, post: String::new(), class: Class::Percent, space: 1 });
            l.push(Tok::word(["of", "on", "off"][*ph as usize % 3], Class::Conn));
            l.push(src.tok());
            if *to {
                l.push(Tok::word("to", Class::Conn));
            }
            l.push(Tok::word(TARGETS[*t as usize % 5].0, Class::Keyword));
        }
        Shape::Juxtaposed(a, n, to, t) => {
            l.push(a.tok());
            l.push(n.tok());
            if *to {
                l.push(Tok::word("to", Class::Conn));
            }
            l.push(Tok::word(TARGETS[*t as usize % 5].0, Class::Keyword));
        }
        Shape::VarConvert(_, _, _, to, t) => {
            l.push(Tok::word("x", Class::Var));
            if *to {
                l.push(Tok::word("to", Class::Conn));
            }
            l.push(Tok::word(TARGETS[*t as usize % 5].0, Class::Keyword));
        }
    }
    l
}

/// the defining line of a VarConvert case
pub fn var_def_line(c: &Case) -> Option<Line> {
    match &c.shape {
        Shape::VarConvert(a, op, b, _, _) => {
            let mut l = Line::default();
            l.push(Tok::word("x", Class::Var));
            l.push(Tok::op('='));
            l.push(a.tok());
            l.push(Tok::op(['+', '-', '*', '/'][*op as usize % 4]));
            l.push(b.tok());
            Some(l)
        }
        _ => None,
    }
}

fn base_nt(b: u8) -> NT {
    match b {
        16 => NT::Hex,
        8 => NT::Octal,
        2 => NT::Binary,
        _ => NT::Decimal,
    }
}

fn prefix(b: u8) -> &'static str {
    match b {
        16 => "0x",
        8 => "0o",
        2 => "0b",
        _ => "",
    }
}

pub struct Based;

impl Prop for Based {
    type Case = Case;
    fn name(&self) -> &'static str {
        "based"
    }
    fn check(&self, w: &mut Worker, c: &Case) -> Verdict {
        let cfg = Cfg { num: c.num, ..Cfg::default() };
        let line = case_line(c).render(",", ".");
        let (rendered, slot) = match var_def_line(c) {
            None => {
                let slot = match w.eval1(&cfg, "en", &line) {
                    Ok(s) => s,
                    Err(e) => return Verdict::fail(e, line.clone()),
                };
                (line.clone(), slot)
            }
            Some(def) => {
                let text = format!("{}\n{}", def.render(",", "."), line);
                match w.eval(&cfg, "en", &text) {
                    Ok(o) if o.slots.len() == 2 => (text.replace('\n', " ; "), o.slots[1].clone()),
                    Ok(o) => return Verdict::fail(format!("{} slots for two lines", o.slots.len()), text),
                    Err(p) => return Verdict::fail(format!("panic at {}: {}", p.site, p.message), text),
                }
            }
        };
        let mut acc = Acc::new();
        let mut nt = false;
        let mut big = false;
        let kind: &'static str;
        match &c.shape {
            Shape::Literal(s) => {
                kind = "literal";
                nt = s.base != 10 && s.n >= 16;
                big = s.n >= 1 << 31;
                match &slot {
                    Slot::Ok { v: V::Num(v, t), out } => {
                        if *v != s.n as f64 || *t != s.nt() {
                            acc.fail(format!("literal {:?} denotes {} in base {}, got {} ({:?})", line, s.n, s.base, v, t));
                        } else if s.base != 10 {
                            check_printed(&mut acc, w, &cfg, out, s.n, s.base);
                        }
                    }
                    other => acc.fail(format!("expected Number({}) got {}", s.n, other.brief())),
                }
            }
            Shape::Convert(s, _, t) => {
                kind = "conversion";
                let (_, tb) = TARGETS[*t as usize % 5];
                let cands = s.rounded();
                nt = cands[0] >= 16 && s.base != tb;
                big = cands[0] >= 1 << 31;
                match &slot {
                    Slot::Ok { v: V::Num(v, ty), out } => {
                        if !cands.iter().any(|c| *v == *c as f64) {
                            acc.fail(format!("expected the integer {:?} got {}", cands, v));
                        } else if *ty != base_nt(tb) {
                            acc.fail(format!("expected a base-{} number got {:?}", tb, ty));
                        } else if tb != 10 {
                            check_printed(&mut acc, w, &cfg, out, *v as u64, tb);
                        } else {
                            // decimal target: typed back it is the same integer
                            match w.eval1(&cfg, "en", out) {
                                Ok(Slot::Ok { v: V::Num(v2, NT::Decimal), .. }) if v2 == *v => {}
                                Ok(o) => acc.fail(format!("the decimal print {:?} reads back as {}", out, o.brief())),
                                Err(e) => acc.fail(e),
                            }
                        }
                    }
                    other => acc.fail(format!("expected Number({:?}) got {}", cands, other.brief())),
                }
            }
            Shape::VarConvert(..) | Shape::PctConvert(..) => {
                let (v, tb) = match &c.shape {
                    Shape::VarConvert(a, op, b, _, t) => {
                        kind = "conversion-of-a-variable";
                        let (x, y) = (a.value(), b.value());
                        (
                            match op % 4 {
                                0 => x + y,
                                1 => x - y,
                                2 => x * y,
                                _ => x / y,
                            },
                            TARGETS[*t as usize % 5].1,
                        )
                    }
                    Shape::PctConvert(ph, p, src, _, t) => {
                        kind = "conversion-of-a-percentage-phrase";
                        let (x, p) = (src.value(), *p as f64);
                        (
                            match ph % 3 {
                                0 => x * p / 100.0,
                                1 => x * (1.0 + p / 100.0),
                                _ => x * (1.0 - p / 100.0),
                            },
                            TARGETS[*t as usize % 5].1,
                        )
                    }
                    _ => unreachable!(),
                };
                let fl = v.floor();
                let cands: Vec<u64> = if ((v - fl) - 0.5).abs() < 1e-6 { vec![fl as u64, fl as u64 + 1] } else { vec![v.round() as u64] };
                nt = cands[0] >= 16;
                big = cands[0] >= 1 << 31;
                match &slot {
                    Slot::Ok { v: got, out } => match got {
                        V::Num(g, ty) => {
                            if !cands.iter().any(|c| *g == *c as f64) {
                                acc.fail(format!("x = {} holds {}; expected the integer {:?} got {}", rendered, v, cands, g));
                            } else if *ty != base_nt(tb) {
                                acc.fail(format!("expected a base-{} number got {:?}", tb, ty));
                            } else if tb != 10 {
                                check_printed(&mut acc, w, &cfg, out, *g as u64, tb);
                            }
                        }
                        other => acc.fail(format!("expected a number got {:?}", other)),
                    },
                    other => acc.fail(format!("expected Number({:?}) got {}", cands, other.brief())),
                }
            }
            Shape::Juxtaposed(a, n, _, _) => {
                kind = "operand-juxtaposed-before-N";
                nt = true;
                // the conversion binds to N, the operand in front is added: the VALUE is A + N (in which notation the sum is
                // shown is not asserted)
                let e = a.n as f64 + n.n as f64;
                match &slot {
                    Slot::Ok { v: V::Num(v, _), .. } if *v == e => {}
                    other => acc.fail(format!("expected the number {} ({} + {}) got {}", e, a.n, n.n, other.brief())),
                }
            }
            Shape::Arith(a, op, b) => {
                kind = "arithmetic";
                nt = a.base != 10 || b.base != 10;
                let (x, y) = (a.n as f64, b.n as f64);
                let e = match op % 3 {
                    0 => x + y,
                    1 => x - y,
                    _ => x * y,
                };
                match &slot {
                    Slot::Ok { v: V::Num(v, _), .. } => {
                        if *v != e {
                            acc.fail(format!("expected {} got {}", e, v));
                        }
                    }
                    other => acc.fail(format!("expected Number({}) got {}", e, other.brief())),
                }
            }
        }
        acc.finish(rendered).nt(nt).class(kind).class_if(big, "value>=2^31").class_if(matches!(&c.shape, Shape::Convert(s, ..) if s.frac.is_some()), "fractional-source").class_if(matches!(&c.shape, Shape::Convert(_, false, _)), "without-to").class_if(matches!(&c.shape, Shape::Arith(..)) && c.glue % 4 != 0, "operator-glued-to-an-operand").class_if(c.num.is_some(), "non-default-number-format")
    }
}

/// the printed based literal: exact prefix, digits of n in that base (hex case-insensitive), and it
/// reads back as the same integer
fn check_printed(acc: &mut Acc, w: &mut Worker, cfg: &Cfg, out: &str, n: u64, base: u8) {
    let exp = format!("{}{}", prefix(base), digits(n, base as u64));
    if out.to_lowercase() != exp || !out.starts_with(prefix(base)) {
        acc.fail(format!("printed {:?}, expected {:?}", out, exp));
        return;
    }
    match parse_printed(&out.to_lowercase()) {
        Some((v, b)) if v == n && b == base => {}
        other => {
            acc.fail(format!("the printed literal {:?} parses (independently) as {:?}, expected {} in base {}", out, other, n, base));
            return;
        }
    }
    match w.eval1(cfg, "en", out) {
        Ok(Slot::Ok { v: V::Num(v2, t2), .. }) if v2 == n as f64 && t2 == base_nt(base) => {}
        Ok(o) => acc.fail(format!("the printed literal {:?} reads back as {}", out, o.brief())),
        Err(e) => acc.fail(e),
    }
}

pub fn n_strategy() -> impl Strategy<Value = u64> {
    let boundaries: Vec<u64> = {
        let mut v = vec![0u64, 1, 7, 8, 9, 10, 15, 16, 17, 255, 256, 1023, 1024, 65535, 65536, (1 << 31) - 1, 1 << 31, (1 << 31) + 1, (1u64 << 32) - 1, 1 << 32, (1u64 << 32) + 1, (1u64 << 53) - 1, 1 << 53];
        for k in 1..53 {
            v.push((1u64 << k) - 1);
            v.push(1u64 << k);
            v.push((1u64 << k) + 1);
        }
        v.sort();
        v.dedup();
        v
    };
    prop_oneof![3 => prop::sample::select(boundaries), 3 => 0u64..=100_000, 2 => 0u64..=(1u64 << 53), 2 => (1u64 << 31)..=(1u64 << 40)]
}

pub fn src_strategy(allow_frac: bool) -> impl Strategy<Value = Src> {
    let frac = if allow_frac {
        prop_oneof![6 => Just(None), 2 => (0u32..1000).prop_map(|f| Some(format!("{:03}", f).trim_end_matches('0').to_string()).filter(|s| !s.is_empty())), 1 => Just(Some("5".to_string())), 1 => Just(Some("49".to_string())), 1 => Just(Some("51".to_string()))].boxed()
    } else {
        Just(None).boxed()
    };
    (n_strategy(), prop::sample::select(vec![10u8, 16, 8, 2]), frac, any::<bool>(), 0u8..3, prop_oneof![6 => Just(0u8), 2 => 1u8..=8, 1 => prop::sample::select(vec![16u8, 22, 32, 48, 64, 70])]).prop_map(|(n, base, frac, prefix_upper, digit_case, pad)| {
        let frac = if base == 10 { frac } else { None };
        // a fractional decimal stays below 2^52 so that the fraction is representable
        let n = if frac.is_some() { n % (1u64 << 36) } else { n };
        Src { n, base, frac, prefix_upper, digit_case, pad: if base == 10 { 0 } else { pad } }
    })
}

pub fn case_strategy() -> impl Strategy<Value = Case> {
    (case_strategy_default_format(), prop_oneof![3 => Just(None), 1 => (0u8..=6, any::<bool>(), any::<bool>()).prop_map(Some)]).prop_map(|(mut c, num)| {
        c.num = num;
        c
    })
}

fn case_strategy_default_format() -> impl Strategy<Value = Case> {
    prop_oneof![
        2 => src_strategy(false).prop_map(|s| Case { shape: Shape::Literal(s), glue: 0, num: None }),
        6 => (src_strategy(true), any::<bool>(), 0u8..5).prop_map(|(s, to, t)| Case { shape: Shape::Convert(s, to, t), glue: 0, num: None }),
        2 => (src_strategy(false), 0u8..3, src_strategy(false), prop_oneof![2 => Just(0u8), 1 => 1u8..4]).prop_map(|(a, op, b, glue)| {
            // keep products exact in f64
            let (a, b) = if op == 2 { (Src { n: a.n % (1 << 26), ..a }, Src { n: b.n % (1 << 26), ..b }) } else { (a, b) };
            Case { shape: Shape::Arith(a, op, b), glue, num: None }
        }),
        // a value computed from a based literal, stored in a variable, then converted: rounded like any other N
        2 => (src_strategy(false), 0u8..4, src_strategy(true), any::<bool>(), 0u8..5).prop_map(|(a, op, b, to, t)| {
            let mut a = Src { n: a.n % (1 << 24), ..a };
            if a.base == 10 {
                a.base = 16;
            }
            let mut b = Src { n: b.n % (1 << 24), base: 10, ..b };
            if op % 4 == 1 && b.n + 1 > a.n {
                a.n = b.n + 1 + a.n;
            }
            if op % 4 == 3 && b.n == 0 {
                b.n = 3;
            }
            Case { shape: Shape::VarConvert(a, op, b, to, t), glue: 0, num: None }
        }),
        1 => (src_strategy(false), src_strategy(false), any::<bool>(), 0u8..5).prop_map(|(a, n, to, t)| Case { shape: Shape::Juxtaposed(Src { n: a.n % (1 << 24), pad: 0, ..a }, Src { n: n.n % (1 << 24), pad: 0, ..n }, to, t), glue: 0, num: None }),
        2 => (0u8..3, 0u32..=100, src_strategy(false), any::<bool>(), 0u8..5).prop_map(|(ph, p, src, to, t)| {
            // (a percentage of a number below 2^24 keeps every intermediate value exact enough to know the rounding)
            Case { shape: Shape::PctConvert(ph, p, Src { n: src.n % (1 << 24), ..src }, to, t), glue: 0, num: None }
        }),
    ]
}

pub fn table() -> Vec<Case> {
    let mut ns = vec![0u64, 1, 15, 16, 255, 256, 4095, 65535, 65536, (1 << 31) - 1, 1 << 31, (1u64 << 32) - 1, 1 << 32, 1 << 40, (1u64 << 53) - 1, 1 << 53];
    for k in [8u32, 16, 24, 31, 32, 33, 47, 52] {
        ns.push((1u64 << k) + 1);
    }
    let mut out = vec![];
    for n in ns {
        for base in [10u8, 16, 8, 2] {
            for t in 0..5u8 {
                for to in [true, false] {
                    out.push(Case { shape: Shape::Convert(Src { n, base, frac: None, prefix_upper: to, digit_case: t % 3, pad: 0 }, to, t), glue: 0, num: None });
                }
            }
            if base != 10 {
                out.push(Case { shape: Shape::Literal(Src { n, base, frac: None, prefix_upper: false, digit_case: 0, pad: 0 }), glue: 0, num: None });
            }
        }
    }
    out
}

pub fn run(ctx: &Ctx) {
    ctx.rule("non-negative integers 0..2^53 (0, 1, powers of two +-1, 2^31-1, 2^31, 2^32, random) as literals in base 16/8/2 (both prefix cases, hex digits in lower/upper/mixed case) and base 10 (also fractional: non-tie fractions and exact .5), 'N [to] hex|hexadecimal|octal|binary|decimal', arithmetic + - * between literals of any base; boundary table x 4 source bases x 5 targets x with/without 'to' enumerated; based literals zero-padded by 1-8 and up to 70 digits; N also a percentage phrase over a based literal (10% of 0x19 to hex); oracle: independent radix formatter and parser: literal value and kind, printed = exact prefix 0x/0o/0b + digits of round(N) (hex compared case-insensitively, an exact tie accepts either neighbour), the printed literal typed back yields the same integer and kind; non-trivial = N >= 16 and source base != target base");
    ctx.assume("N <= 2^53 (beyond that an f64 is not an integer any more); literals longer than 16 hex digits belong to C01; negative numbers are outside the statement");
    ctx.run_table(&Based, "boundary-table", table(), true);
    ctx.run_generated(&Based, ctx.tier.pick(100_000, 1_000_000), case_strategy);
}

pub fn replay(w: &mut Worker, sub: &str, case: &serde_json::Value) -> Option<Verdict> {
    match sub {
        "based" => crate::engine::replay_case(&Based, w, case),
        _ => None,
    }
}
