//! C17 — highlight (UI) tokens are well-formed character spans.

use crate::common::Cfg;
use crate::engine::{Acc, Ctx, Prop, Verdict, Worker};
use crate::lines::{Class, Line, Tok};
use crate::mixed::{any_line, GenLine};
use proptest::prelude::*;
use serde::{Deserialize, Serialize};
use smartcalc::{UiToken, UiTokenType};

/// multi-byte filler words (none is a keyword, currency, unit or zone)
pub const WORDS: [&str; 14] = ["şğü", "öç", "日本", "日本語テキスト", "€€", "₺", "😀", "😀😀", "e\u{301}", "ñandú", "İ", "ıııı", "ß", "ǅﬁ"];

fn changes_length_under_case_mapping(s: &str) -> bool {
    s.chars().any(|c| {
        let lower: String = c.to_lowercase().collect();
        let upper: String = c.to_uppercase().collect();
        lower.len() != c.len_utf8() || upper.len() != c.len_utf8() || lower.chars().count() != 1 || upper.chars().count() != 1
    })
}

#[derive(Clone, Debug, Serialize, Deserialize)]
pub enum Input {
    /// a generated line with multi-byte words inserted: (token position, word index)
    Structured(GenLine, Vec<(u8, u8)>, Option<String>, Vec<u8>),
    /// free text (token soup / unicode): validity only
    Free(String, String),
}

#[derive(Clone, Debug, Serialize, Deserialize)]
pub struct Case {
    pub input: Input,
    /// separator convention in force for structured lines (index into SEPS; 0 = the default)
    #[serde(default)]
    pub seps: u8,
}

/// (decimal, thousands) conventions under which structured lines are rendered and evaluated: the four reading
/// conventions and two in which neither ',' nor '.' (resp. '.') is a separator
pub const SEPS: [(&str, &str); 6] = [(",", "."), (".", ","), (".", ""), (",", ""), (".", " "), (",", "'")];

/// validity of the token list of one line
pub fn check_valid(tokens: &[UiToken], line: &str) -> Result<(), String> {
    let n = line.chars().count();
    for (i, t) in tokens.iter().enumerate() {
        if !(t.start < t.end && t.end <= n) {
            return Err(format!("token {} {:?} ({}, {}) violates 0 <= start < end <= {} (characters)", i, t.ui_type, t.start, t.end, n));
        }
        if i > 0 {
            let p = &tokens[i - 1];
            if p.start > t.start {
                return Err(format!("tokens are not ordered by start: ({}, {}) before ({}, {})", p.start, p.end, t.start, t.end));
            }
            if p.end > t.start {
                return Err(format!("tokens overlap: {:?} ({}, {}) and {:?} ({}, {})", p.ui_type, p.start, p.end, t.ui_type, t.start, t.end));
            }
        }
    }
    Ok(())
}

pub struct Spans;

fn classify_known(line: &str) -> Option<&'static str> {
    // F132: the month and zone lexers match on a case-mapped copy of the line whose byte offsets differ
    // from the line's when a character changes its UTF-8 length under case mapping
    if changes_length_under_case_mapping(line) {
        Some("F132")
    } else {
        None
    }
}

impl Prop for Spans {
    type Case = Case;
    fn name(&self) -> &'static str {
        "spans"
    }
    fn check(&self, w: &mut Worker, c: &Case) -> Verdict {
        match &c.input {
            Input::Free(lang, text) => {
                let rendered = format!("[{}] {:?}", lang, text);
                let out = match w.eval(&Cfg::default(), lang, text) {
                    Ok(o) => o,
                    Err(p) => return Verdict::fail(format!("panic at {}: {}", p.site, p.message), rendered),
                };
                let lines = crate::c01::split_lines(text);
                let mut acc = Acc::new();
                let mut multi_after = false;
                let mut comments = 0;
                let mut ntok = 0;
                for (i, l) in lines.iter().enumerate() {
                    if let Some(ui) = out.ui.get(i) {
                        ntok += ui.len();
                        if let Err(e) = check_valid(ui, l) {
                            acc.fail_kf(format!("line {:?}: {}", l, e), classify_known(l));
                            break;
                        }
                        multi_after |= ui.iter().any(|t| l.chars().take(t.start).any(|ch| ch.len_utf8() > 1));
                        // exactness that needs no knowledge of the line's structure: the first '#' starts the comment,
                        // which is reported as one Comment token reaching to the end of the line
                        // (a lone CR inside the line ends the comment pattern, such lines are left to the validity predicate)
                        if let Some(pos) = l.chars().position(|ch| ch == '#').filter(|_| !l.contains('\r')) {
                            let n = l.chars().count();
                            comments += 1;
                            if !matches!(out.slots.get(i), None | Some(crate::common::Slot::Nothing)) && !ui.iter().any(|u| u.ui_type == UiTokenType::Comment && (u.start, u.end) == (pos, n)) {
                                acc.fail_kf(format!("line {:?}: the comment at characters ({}, {}) is not reported as one Comment token; tokens: {}", l, pos, n, brief(ui)), classify_known(l));
                                break;
                            }
                        }
                    }
                }
                acc.finish(rendered).nt(multi_after && ntok >= 2).class("free-text").class_if(comments > 0, "comment-span-checked").class_if(multi_after, "token-after-multibyte-char").class_if(changes_length_under_case_mapping(text), "case-mapping-changes-length")
            }
            Input::Structured(g, inserts, comment, extra) => {
                // build the last line with inserted words
                let mut toks: Vec<Tok> = g.line.toks.clone();
                let mut ins: Vec<(usize, usize)> = inserts.iter().map(|(p, wi)| ((*p as usize) % (toks.len() + 1), *wi as usize % WORDS.len())).collect();
                ins.sort_by(|a, b| b.0.cmp(&a.0));
                for (p, wi) in ins {
                    let mut t = Tok::word(WORDS[wi], Class::Other);
                    t.space = 1;
                    if p < toks.len() && toks[p].space == 0 && p > 0 {
                        // keep glued neighbours glued: insert with blanks on both sides
                        toks[p].space = 1;
                    }
                    toks.insert(p, t);
                }
                if let Some(first) = toks.first_mut() {
                    first.space = 0;
                }
                let mut l = Line { toks };
                // make sure a word is separated from a following token
                for i in 1..l.toks.len() {
                    if l.toks[i - 1].class == Class::Other && l.toks[i].space == 0 {
                        l.toks[i].space = 1;
                    }
                }
                let (dec, thou) = SEPS[c.seps as usize % SEPS.len()];
                // literals are written without grouping under the printing-only conventions
                let rthou = if c.seps as usize % SEPS.len() >= 4 { "" } else { thou };
                let (mut text, spans) = l.render_with_offsets(dec, rthou, extra);
                let comment_start = text.chars().count() + 1;
                if let Some(cm) = comment {
                    text.push_str(" #");
                    text.push_str(cm);
                }
                let prelude: Vec<String> = g.prelude.iter().map(|p| p.render(dec, rthou)).collect();
                let mut all_lines = prelude.clone();
                all_lines.push(text.clone());
                let full = all_lines.join("\n");
                let rendered = if c.seps as usize % SEPS.len() == 0 { format!("[{} {}] {:?}", g.src, g.lang, full) } else { format!("[{} {} dec={:?} thou={:?}] {:?}", g.src, g.lang, dec, thou, full) };
                let out = match w.eval(&g.cfg(dec, thou), &g.lang, &full) {
                    Ok(o) => o,
                    Err(p) => return Verdict::fail(format!("panic at {}: {}", p.site, p.message), rendered),
                };
                let mut acc = Acc::new();
                let kf = classify_known(&full);
                for (i, ln) in all_lines.iter().enumerate() {
                    if let Some(ui) = out.ui.get(i) {
                        if let Err(e) = check_valid(ui, ln) {
                            acc.fail_kf(format!("line {:?}: {}", ln, e), kf);
                        }
                    }
                }
                let ui: Vec<UiToken> = out.ui.last().cloned().unwrap_or_default();
                let evaluated = !matches!(out.slots.last(), Some(crate::common::Slot::Nothing) | None);
                let mut checked_numbers = 0;
                let mut checked_ops = 0;
                if acc.ok() && evaluated {
                    let is_var_line = l.toks.iter().any(|t| t.class == Class::Var) || !g.prelude.is_empty();
                    for (i, t) in l.toks.iter().enumerate() {
                        let (s, e) = spans[i];
                        let glued_to_prev_sign = i > 0 && t.space + extra.get(i).copied().unwrap_or(0) == 0 && matches!(l.toks[i - 1].class, Class::Operator) && (l.toks[i - 1].pre == "-" || l.toks[i - 1].pre == "+");
                        match t.class {
                            Class::Number if t.pre.is_empty() && !is_var_line => {
                                if glued_to_prev_sign {
                                    continue;
                                }
                                if t.post.starts_with(',') || t.post.starts_with('.') {
                                    // punctuation glued to the literal (`May 31, 1926`): it may or may not be painted with the
                                    // number, but a Number token starts exactly where the literal starts
                                    let digits_end = e - t.post.chars().count();
                                    if !ui.iter().any(|u| u.ui_type == UiTokenType::Number && u.start == s && u.end >= digits_end && u.end <= e) {
                                        acc.fail_kf(format!("the number literal {:?} starting at character {} is not reported as a Number token starting there; tokens: {}", t.text(dec, rthou), s, brief(&ui)), kf);
                                        break;
                                    }
                                    checked_numbers += 1;
                                    continue;
                                }
                                // the literal without a magnitude suffix
                                let suffix_len = t.post.chars().count();
                                let want = (s, e - suffix_len);
                                checked_numbers += 1;
                                if !ui.iter().any(|u| u.ui_type == UiTokenType::Number && (u.start, u.end) == want) {
                                    acc.fail_kf(format!("the number literal {:?} at characters ({}, {}) is not reported as a Number token with exactly that span; tokens: {}", t.text(dec, rthou), want.0, want.1, brief(&ui)), kf);
                                    break;
                                }
                            }
                            Class::Operator | Class::Paren if t.pre.chars().count() == 1 => {
                                // a sign glued to the following digits belongs to that literal
                                let next_glued = l.toks.get(i + 1).map_or(false, |n| n.space + extra.get(i + 1).copied().unwrap_or(0) == 0 && n.text(dec, rthou).chars().next().map_or(false, |c| c.is_ascii_digit()));
                                if (t.pre == "-" || t.pre == "+") && next_glued {
                                    continue;
                                }
                                // '%' of `is what % of`, '=' of assignments and ',' are operators too
                                checked_ops += 1;
                                if !ui.iter().any(|u| u.ui_type == UiTokenType::Operator && (u.start, u.end) == (s, e)) {
                                    // an assignment re-labels everything left of '=' as the variable definition; '=' itself stays
                                    acc.fail_kf(format!("the operator {:?} at character {} is not reported as an Operator token of length 1; tokens: {}", t.pre, s, brief(&ui)), kf);
                                    break;
                                }
                            }
                            _ => {}
                        }
                    }
                    if acc.ok() && comment.is_some() {
                        let n = text.chars().count();
                        if !ui.iter().any(|u| u.ui_type == UiTokenType::Comment && (u.start, u.end) == (comment_start, n)) {
                            acc.fail_kf(format!("the comment at characters ({}, {}) is not reported as one Comment token; tokens: {}", comment_start, n, brief(&ui)), kf);
                        }
                    }
                }
                let multi_after = ui.iter().any(|t| text.chars().take(t.start).any(|ch| ch.len_utf8() > 1));
                acc.finish(rendered)
                    .nt(multi_after && ui.len() >= 2)
                    .class("structured")
                    .class_if(multi_after, "token-after-multibyte-char")
                    .class_if(checked_numbers > 0, "number-spans-checked")
                    .class_if(checked_ops > 0, "operator-spans-checked")
                    .class_if(comment.is_some(), "comment-span-checked")
                    .class_if(changes_length_under_case_mapping(&full), "case-mapping-changes-length")
                    .class_if(g.lang == "tr", "lang:tr")
            }
        }
    }
}

fn brief(ui: &[UiToken]) -> String {
    ui.iter().map(|u| format!("{:?}({},{})", u.ui_type, u.start, u.end)).collect::<Vec<_>>().join(" ")
}

// ---- a based literal next to anything --------------------------------------------------------------------

/// `0x…`, `0o…`, `0b…` literals are number literals: whatever stands before or after one - a currency code or sign, a
/// percent sign, a unit, a word, an operator, a comment - the literal is reported as one Number token covering exactly
/// its characters
#[derive(Clone, Debug, Serialize, Deserialize)]
pub struct BasedCtx {
    pub lit: crate::c13::Src,
    pub before: u8,
    pub after: u8,
    /// blanks between the literal and what follows (0 = glued where the follower is not alphanumeric)
    pub gap: u8,
}

pub const BEFORE: [&str; 8] = ["", "", "", "5 +", "şğü", "x =", "10 usd +", "("];
pub const AFTER: [&str; 22] = ["", "usd", "try", "eur", "€", "$", "₺", "%", "kg", "km", "mb", "pm", "EST", "to hex", "+ 1", "* 0b11", "# c", "日本", "hours", "to decimal", ")", "usd + 0o17 eur"];

pub struct BasedInContext;

impl Prop for BasedInContext {
    type Case = BasedCtx;
    fn name(&self) -> &'static str {
        "based-literal-in-context"
    }
    fn check(&self, w: &mut Worker, c: &BasedCtx) -> Verdict {
        let before = BEFORE[c.before as usize % BEFORE.len()];
        let after = AFTER[c.after as usize % AFTER.len()];
        let lit = c.lit.text();
        let glue_ok = after.chars().next().map_or(true, |ch| !ch.is_alphanumeric());
        let gap = if glue_ok { c.gap % 3 } else { 1 + c.gap % 2 };
        let mut line = String::new();
        if !before.is_empty() {
            line.push_str(before);
            line.push(' ');
        }
        let start = line.chars().count();
        line.push_str(&lit);
        let end = line.chars().count();
        if !after.is_empty() {
            line.push_str(&" ".repeat(gap as usize));
            line.push_str(after);
        }
        // an unbalanced parenthesis is closed / opened so that the line still evaluates where it can
        let rendered = format!("{:?}", line);
        let out = match w.eval(&Cfg::default(), "en", &line) {
            Ok(o) => o,
            Err(p) => return Verdict::fail(format!("panic at {}: {}", p.site, p.message), rendered),
        };
        let ui: Vec<UiToken> = out.ui.last().cloned().unwrap_or_default();
        let mut acc = Acc::new();
        if let Err(e) = check_valid(&ui, &line) {
            acc.fail(e);
        } else if !ui.iter().any(|u| u.ui_type == UiTokenType::Number && (u.start, u.end) == (start, end)) {
            acc.fail(format!("the literal {:?} at characters ({}, {}) is not reported as one Number token with exactly that span; tokens: {}", lit, start, end, brief(&ui)));
        }
        acc.finish(rendered).nt(!after.is_empty() || !before.is_empty()).class("based-literal-in-context").class_if(gap == 0 && !after.is_empty(), "follower-glued")
    }
}

pub fn based_ctx_strategy() -> impl Strategy<Value = BasedCtx> {
    (crate::c13::src_strategy(false).prop_filter("based", |s| s.base != 10), 0u8..8, 0u8..22, 0u8..6).prop_map(|(lit, before, after, gap)| BasedCtx { lit: crate::c13::Src { pad: lit.pad % 9, ..lit }, before, after, gap })
}

// ---- an operator character inside the pattern of a registered rule ----------------------------------------

/// A custom rule may use an operator character as a literal part of its pattern (`{NUMBER:n} @ {NUMBER:k}`). On a line the
/// rule matches, the character is still an operator of the line: reported as an Operator token of length 1, and the
/// number literals around it as Number tokens covering exactly their characters.
#[derive(Clone, Debug, Serialize, Deserialize)]
pub struct RuleOp {
    pub op: u8,
    /// 0 `{n} op {k}`, 1 `kw {n} op {k}`, 2 `{n} op {k} kw`
    pub layout: u8,
    pub n: u32,
    pub k: u32,
    /// a word before the matched part (index into WORDS, or none)
    pub lead: Option<u8>,
    pub lang: u8,
}

pub const RULE_OPS: [char; 9] = ['@', '&', '!', '~', '^', '|', '<', '>', '?'];

pub struct OperatorInRule;

impl Prop for OperatorInRule {
    type Case = RuleOp;
    fn shrink_iters(&self) -> u32 {
        200
    }
    fn name(&self) -> &'static str {
        "operator-in-a-rule-pattern"
    }
    fn check(&self, w: &mut Worker, c: &RuleOp) -> Verdict {
        use crate::c18::{Behaviour, GenRule, RuleSpec};
        let op = RULE_OPS[c.op as usize % RULE_OPS.len()];
        let lang = if c.lang % 4 == 3 { "tr" } else { "en" };
        // (wave 9) layouts 3-5: a {PERCENT}/{MONEY} field matched by a literal made of several lexer pieces (sign or
        // symbol first, k/M suffix); only the validity of the spans is asserted for those
        let typed = c.layout % 6 >= 3;
        let (pattern, body) = match c.layout % 6 {
            3 => ("rate {PERCENT:n}".to_string(), if c.k % 2 == 0 { format!("rate %{}", c.n) } else { format!("rate {}%", c.n) }),
            4 => (
                "fee {MONEY:n}".to_string(),
                match c.k % 5 {
                    0 => format!("fee ${}", c.n),
                    1 => format!("fee {} usd", c.n),
                    2 => format!("fee {}k usd", c.n),
                    3 => format!("fee \u{20ac}{}", c.n),
                    _ => format!("fee ${}k", c.n),
                },
            ),
            5 => ("{MONEY:n} due".to_string(), if c.k % 2 == 0 { format!("${} due", c.n) } else { format!("{}M eur due", c.n) }),
            0 => (format!("{{NUMBER:n}} {} {{NUMBER:k}}", op), format!("{} {} {}", c.n, op, c.k)),
            1 => (format!("frob {{NUMBER:n}} {} {{NUMBER:k}}", op), format!("frob {} {} {}", c.n, op, c.k)),
            _ => (format!("{{NUMBER:n}} {} {{NUMBER:k}} zork", op), format!("{} {} {} zork", c.n, op, c.k)),
        };
        let line = match c.lead {
            Some(i) => format!("{} {}", WORDS[i as usize % WORDS.len()], body),
            None => body,
        };
        let rendered = format!("[{}] add_rule({:?}); {:?}", lang, pattern, line);
        let mut calc = crate::common::build_calc(&Cfg::default());
        let rule: std::rc::Rc<dyn smartcalc::RuleTrait> = std::rc::Rc::new(GenRule { spec: RuleSpec { name: 0, patterns: vec![], behaviour: Behaviour::Number(1) } });
        match crate::engine::guarded(|| calc.add_rule(lang.to_string(), vec![pattern.clone()], rule)) {
            Ok(true) => {}
            Ok(false) => return Verdict::fail("add_rule returned false".into(), rendered),
            Err(p) => return Verdict::fail(format!("add_rule panicked at {}: {}", p.site, p.message), rendered),
        }
        w.count_eval(1);
        let out = match crate::common::eval_on(&calc, lang, &line) {
            Ok(o) => o,
            Err(p) => return Verdict::fail(format!("panic at {}: {}", p.site, p.message), rendered),
        };
        let ui: Vec<UiToken> = out.ui.last().cloned().unwrap_or_default();
        let mut acc = Acc::new();
        // the rule matched: the line is the number the rule computes
        let matched = if typed {
            matches!(out.slots.last(), Some(crate::common::Slot::Ok { v: crate::common::V::Num(_, _), .. }))
        } else {
            matches!(out.slots.last(), Some(crate::common::Slot::Ok { v: crate::common::V::Num(x, _), .. }) if *x == 1.0 + 2.0 * c.n as f64 + 3.0 * c.k as f64)
        };
        if let Err(e) = check_valid(&ui, &line) {
            acc.fail(e);
        } else if !typed {
            let chars: Vec<char> = line.chars().collect();
            for (pos, ch) in chars.iter().enumerate() {
                if *ch == op && !ui.iter().any(|u| u.ui_type == UiTokenType::Operator && (u.start, u.end) == (pos, pos + 1)) {
                    acc.fail(format!("the operator {:?} at character {} is not reported as an Operator token of length 1; tokens: {}", op, pos, brief(&ui)));
                    break;
                }
            }
            // the two number literals
            let mut pos = 0;
            for word in line.split(' ') {
                let n = word.chars().count();
                if !word.is_empty() && word.chars().all(|ch| ch.is_ascii_digit()) && acc.ok() && !ui.iter().any(|u| u.ui_type == UiTokenType::Number && (u.start, u.end) == (pos, pos + n)) {
                    acc.fail(format!("the number literal {:?} at characters ({}, {}) is not reported as a Number token with exactly that span; tokens: {}", word, pos, pos + n, brief(&ui)));
                }
                pos += n + 1;
            }
        }
        acc.finish(rendered).nt(matched).class("operator-in-a-rule-pattern").class_if(matched, "the-rule-matched").class_if(typed, "percent-or-money-field").class_if(c.lead.is_some(), "multi-byte-word-before")
    }
}

pub fn ruleop_strategy() -> impl Strategy<Value = RuleOp> {
    (0u8..9, 0u8..6, 0u32..1000, 0u32..1000, prop::option::weighted(0.4, 0u8..14), 0u8..4).prop_map(|(op, layout, n, k, lead, lang)| RuleOp { op, layout, n, k, lead, lang })
}

pub fn case_strategy() -> impl Strategy<Value = Case> {
    let comment = prop_oneof![2 => crate::c16::comment_strategy(), 1 => prop::sample::select(WORDS.to_vec()).prop_map(|s| format!(" {} 5 + 3", s))];
    let structured = (any_line(), prop::collection::vec((any::<u8>(), any::<u8>()), 0..4), prop::option::weighted(0.4, comment), prop::collection::vec(prop_oneof![6 => Just(0u8), 2 => 1u8..3], 0..20)).prop_map(|(g, ins, cm, extra)| Case { input: Input::Structured(g, ins, cm, extra), seps: 0 });
    let free = prop_oneof![
        2 => (crate::c01::lang_strategy(), crate::c01::text_strategy(crate::c01::soup_line(12).boxed(), 3)),
        1 => (crate::c01::lang_strategy(), crate::c01::text_strategy(crate::c01::unicode_line().boxed(), 3)),
        2 => (Just("en".to_string()), (prop::sample::select(WORDS.to_vec()), crate::c01::soup_line(8), prop::sample::select(WORDS.to_vec())).prop_map(|(a, s, b)| format!("{} {} {}", a, s, b))),
    ]
    .prop_filter("known language (an unknown tag has no month/zone vocabulary; still fine)", |_| true)
    .prop_map(|(lang, text)| Case { input: Input::Free(lang, text), seps: 0 });
    (prop_oneof![3 => structured, 2 => free], prop_oneof![3 => Just(0u8), 1 => 1u8..6]).prop_map(|(mut c, seps)| {
        c.seps = seps;
        c
    })
}

pub fn regressions() -> Vec<Case> {
    let f = |t: &str| Case { input: Input::Free("en".into(), t.into()), seps: 0 };
    vec![f("şğü 5"), f("€5"), f("5 € + 3 €"), f("日本 10 usd # ç"), f("5 # jan 2020"), f("ŞŞŞ 12 may"), f("😀 10:30 EST to CET"), f("öç 10 + 20 # 日本")]
}

pub fn run(ctx: &Ctx) {
    let _ = Line::default();
    ctx.rule("lines from all generators with multi-byte words (2-byte Turkish letters, 3-byte CJK and currency signs, 4-byte emoji, combining marks, and - as a separately counted class - characters whose case mapping changes their length: İ ı ß ǅ ﬁ) inserted before, between and after tokens, extra blanks, appended comments with multi-byte text; plus free token soup / Unicode texts; a based literal with anything before and after it (currency code or sign, %, unit, word, operator, comment; glued where possible) is one Number token; a registered rule whose pattern contains an operator character (@ & ! ~ ^ | < > ?), on lines it matches: the character is an Operator token, the numbers Number tokens; oracle: validity predicate on every line's ui_tokens against the CHARACTER count (0 <= start < end <= n, ordered by start, no overlap) and exactness from the generator's knowledge of where it put things: every plain number literal is covered by a Number token with exactly its span (a magnitude suffix is separate), every operator character by an Operator token of length 1, the comment by one Comment token from '#' to the end of the line; non-trivial = a token starts after a multi-byte character and the line has >= 2 tokens");
    ctx.assume("a sign glued to the following digits belongs to that literal; numbers inside variable definitions/uses are re-labelled by design and not checked for exactness");
    ctx.run_table(&Spans, "regressions", regressions(), false);
    ctx.run_generated(&Spans, ctx.tier.pick(150_000, 1_500_000), case_strategy);
    // lines with unit quantities of user-defined families (unit word after or before the value)
    ctx.run_generated(&crate::custom_units::CustomUnits, ctx.tier.pick(300, 5_000), || crate::custom_units::case_strategy("C17"));
    ctx.run_generated(&BasedInContext, ctx.tier.pick(20_000, 200_000), based_ctx_strategy);
    ctx.run_generated(&OperatorInRule, ctx.tier.pick(600, 6_000), ruleop_strategy);
    if ctx.tier == crate::engine::Tier::Thorough {
        crate::fuzzdec::campaign(ctx, "C17", "c17_spans");
    }
}

pub fn replay(w: &mut Worker, sub: &str, case: &serde_json::Value) -> Option<Verdict> {
    match sub {
        "spans" => crate::engine::replay_case(&Spans, w, case),
        "custom-units" => crate::custom_units::replay(w, case),
        "based-literal-in-context" => crate::engine::replay_case(&BasedInContext, w, case),
        "operator-in-a-rule-pattern" => crate::engine::replay_case(&OperatorInRule, w, case),
        _ => None,
    }
}
