//! Coverage-guided tier (libFuzzer through cargo-fuzz) for C01 and C17: decoding of raw fuzzer
//! bytes into the structured cases of the proptest tier, the in-target oracle call, seed corpus and
//! dictionary generation, and the campaign driver used by `./check C01|C17 thorough`.
//!
//! Input format (kept textual so that libFuzzer's dictionary and splice mutations work on the part
//! that matters): byte 0 selects the configuration (default + the C01 panel), byte 1 the language
//! tag, the rest is the text (UTF-8, decoded lossily; at most 8 lines of 400 characters).

use crate::common::Cfg;
use crate::engine::{Ctx, Prop, Res, Tier, Verdict, WatchSlot, Worker};
use serde_json::json;
use std::cell::RefCell;
use std::collections::BTreeSet;
use std::sync::{Arc, Mutex};

pub const LANGS: [&str; 8] = ["en", "tr", "", "xx", "EN", "en-US", "de", "日本"];

pub fn cfgs() -> Vec<Cfg> {
    let mut v = vec![Cfg::default()];
    v.extend(crate::c01::cfg_panel());
    v
}

pub fn encode(cfg_idx: u8, lang_idx: u8, text: &str) -> Vec<u8> {
    let mut v = vec![cfg_idx, lang_idx];
    v.extend_from_slice(text.as_bytes());
    v
}

fn bounded_text(raw: &[u8]) -> String {
    let s = String::from_utf8_lossy(raw);
    let mut out = String::new();
    let mut lines = 1;
    let mut in_line = 0;
    for ch in s.chars() {
        if ch == '\n' {
            if lines == 8 {
                break;
            }
            lines += 1;
            in_line = 0;
            out.push(ch);
            continue;
        }
        if in_line < 400 {
            out.push(ch);
            in_line += 1;
        }
    }
    out
}

pub fn decode_c01(data: &[u8]) -> crate::c01::Case {
    let all = cfgs();
    // half of the selector space is the default configuration
    let b0 = data.first().copied().unwrap_or(0) as usize;
    let cfg = if b0 % 2 == 0 { Cfg::default() } else { all[(b0 / 2) % all.len()].clone() };
    let b1 = data.get(1).copied().unwrap_or(0) as usize;
    // three quarters of the selector space are the two configured languages
    let lang = match b1 % 8 {
        0 | 1 | 2 | 3 => "en",
        4 | 5 => "tr",
        _ => LANGS[(b1 / 8) % LANGS.len()],
    };
    let text = bounded_text(data.get(2..).unwrap_or(&[]));
    crate::c01::Case { cfg, lang: lang.to_string(), text, family: "fuzz".into() }
}

pub fn decode_c17(data: &[u8]) -> crate::c17::Case {
    let b1 = data.get(1).copied().unwrap_or(0) as usize;
    let lang = match b1 % 8 {
        0 | 1 | 2 | 3 | 4 => "en",
        5 | 6 => "tr",
        _ => LANGS[(b1 / 8) % LANGS.len()],
    };
    let text = bounded_text(data.get(2..).unwrap_or(&[]));
    crate::c17::Case { input: crate::c17::Input::Free(lang.to_string(), text), seps: 0 }
}

thread_local! {
    static FUZZ_WORKER: RefCell<Option<Worker>> = RefCell::new(None);
}

fn with_worker<T>(f: impl FnOnce(&mut Worker) -> T) -> T {
    FUZZ_WORKER.with(|cell| {
        let mut b = cell.borrow_mut();
        if b.is_none() {
            // libFuzzer's own hook (print + abort) becomes the fallback for panics outside `guarded`
            crate::engine::install_panic_hook();
            let slot = Arc::new(WatchSlot { current: Mutex::new(None) });
            let mut w = Worker::new(0, Tier::Thorough, slot, Arc::new(BTreeSet::new()));
            w.frozen = true;
            *b = Some(w);
        }
        f(b.as_mut().unwrap())
    })
}

/// check one raw input under the property's oracle (strict: no known-finding suppression)
pub fn verdict_of(id: &str, data: &[u8]) -> (Verdict, serde_json::Value, &'static str) {
    match id {
        "C01" => {
            let c = decode_c01(data);
            let v = with_worker(|w| crate::c01::check_text(w, &c));
            (v, serde_json::to_value(&c).unwrap(), "total")
        }
        _ => {
            let c = decode_c17(data);
            let v = with_worker(|w| crate::c17::Spans.check(w, &c));
            (v, serde_json::to_value(&c).unwrap(), "spans")
        }
    }
}

/// the body of the fuzz targets
pub fn fuzz_one(id: &str, data: &[u8]) {
    std::env::set_var("TZ", "UTC");
    let (v, _case, _sub) = verdict_of(id, data);
    if let Res::Fail { msg, .. } = &v.res {
        // outside `guarded`: reaches libFuzzer's hook, which aborts and saves the input
        panic!("property {} violated: {}\n  input: {}", id, msg, v.rendered);
    }
}

// ---- seeds and dictionary ---------------------------------------------------------------------

pub fn dictionary() -> String {
    let mut out = String::new();
    let mut seen = BTreeSet::new();
    for f in crate::c01::fragments() {
        if f.is_empty() || f.len() > 40 || !seen.insert(f.clone()) {
            continue;
        }
        let mut lit = String::new();
        for b in f.as_bytes() {
            match *b {
                b'"' => lit.push_str("\\\""),
                b'\\' => lit.push_str("\\\\"),
                0x20..=0x7e => lit.push(*b as char),
                other => lit.push_str(&format!("\\x{:02X}", other)),
            }
        }
        out.push_str(&format!("\"{}\"\n", lit));
    }
    for w in crate::c17::WORDS {
        let lit: String = w.as_bytes().iter().map(|b| format!("\\x{:02X}", b)).collect();
        out.push_str(&format!("\"{}\"\n", lit));
    }
    out.push_str("\"\\x0A\"\n\"\\x0D\\x0A\"\n\" = \"\n\" # \"\n");
    out
}

/// seed inputs: the C01 corpus, the C17 regressions, README-style lines and samples of every generator
pub fn seeds(id: &str, seed: u64) -> Vec<Vec<u8>> {
    use crate::engine::sample_n;
    let all = cfgs();
    let mut out: Vec<Vec<u8>> = vec![];
    let cfg_byte = |c: &Cfg| -> u8 { all.iter().position(|x| x == c).map(|i| if i == 0 { 0 } else { (i * 2 + 1) as u8 }).unwrap_or(0) };
    let lang_byte = |l: &str| -> u8 {
        match l {
            "en" => 0,
            "tr" => 4,
            other => LANGS.iter().position(|x| *x == other).map(|i| (i * 8 + 7) as u8).unwrap_or(0),
        }
    };
    for c in crate::c01::corpus() {
        out.push(encode(cfg_byte(&c.cfg), lang_byte(&c.lang), &c.text));
    }
    for g in sample_n(&crate::mixed::any_line(), seed, 300) {
        out.push(encode(cfg_byte(&g.cfg(",", ".")), lang_byte(&g.lang), &g.text(",", ".")));
    }
    if id == "C17" {
        for c in crate::c17::regressions() {
            if let crate::c17::Input::Free(l, t) = &c.input {
                out.push(encode(0, lang_byte(l), t));
            }
        }
        for (i, g) in sample_n(&crate::mixed::any_line(), seed ^ 0x17, 200).into_iter().enumerate() {
            let w = crate::c17::WORDS[i % crate::c17::WORDS.len()];
            out.push(encode(0, lang_byte(&g.lang), &format!("{} {} {} # {}", w, g.text(",", "."), w, w)));
        }
    }
    for (c, l, t) in sample_n(&crate::c01::mutant_text(), seed, 100) {
        out.push(encode(cfg_byte(&c), lang_byte(&l), &t));
    }
    out
}

// ---- campaign driver -----------------------------------------------------------------------------

struct FuzzCorpus(&'static str);
#[derive(Clone, Debug, serde::Serialize, serde::Deserialize)]
pub struct RawCase {
    pub id: String,
    /// the raw fuzzer input, hex encoded
    pub hex: String,
}
fn hex(b: &[u8]) -> String {
    b.iter().map(|x| format!("{:02x}", x)).collect()
}
fn unhex(s: &str) -> Vec<u8> {
    (0..s.len() / 2).filter_map(|i| u8::from_str_radix(&s[2 * i..2 * i + 2], 16).ok()).collect()
}
impl Prop for FuzzCorpus {
    type Case = RawCase;
    fn name(&self) -> &'static str {
        self.0
    }
    fn check(&self, w: &mut Worker, c: &RawCase) -> Verdict {
        let data = unhex(&c.hex);
        match c.id.as_str() {
            "C01" => crate::c01::check_text(w, &decode_c01(&data)),
            _ => crate::c17::Spans.check(w, &decode_c17(&data)),
        }
    }
}

pub fn replay_raw(w: &mut Worker, id: &str, data: &[u8]) -> Verdict {
    FuzzCorpus("fuzz").check(w, &RawCase { id: id.to_string(), hex: hex(data) })
}

pub fn replay(w: &mut Worker, case: &serde_json::Value) -> Option<Verdict> {
    let c: RawCase = serde_json::from_value(case.clone()).ok()?;
    Some(FuzzCorpus("fuzz").check(w, &c))
}

fn run_cmd(cmd: &mut std::process::Command, log: &str) -> Option<i32> {
    use std::process::Stdio;
    let f = std::fs::File::create(log).ok()?;
    let f2 = f.try_clone().ok()?;
    cmd.stdout(Stdio::from(f)).stderr(Stdio::from(f2));
    cmd.status().ok().and_then(|s| s.code())
}

/// Build the target, run a libFuzzer campaign of `secs` seconds with `ctx.threads` forked jobs on a fresh
/// work corpus, then (a) turn every artefact into a strict replay, (b) re-run the resulting corpus
/// in-process so that the evidence counts and classifies what the fuzzer kept.
pub fn campaign(ctx: &Ctx, id: &'static str, target: &'static str) {
    let secs: u64 = std::env::var("VERIF_FUZZ_S").ok().and_then(|s| s.parse().ok()).unwrap_or(600);
    if secs == 0 {
        eprintln!("[{}] VERIF_FUZZ_S=0: coverage-guided stage skipped", id);
        return;
    }
    let root = format!("{}/fuzz", crate::engine::verif_dir());
    let t0 = std::time::Instant::now();
    let build_log = format!("{}/fuzz/build-{}.log", root, target);
    let rc = run_cmd(std::process::Command::new("cargo").current_dir(&root).env("CARGO_NET_OFFLINE", "true").args(["+nightly", "fuzz", "build", "-s", "none", target]), &build_log);
    if rc != Some(0) {
        eprintln!("[{}] cargo fuzz build {} failed (rc {:?}, see {}): the coverage-guided stage is inconclusive", id, target, rc, build_log);
        ctx.note_inconclusive(&format!("cargo fuzz build {} failed", target));
        return;
    }
    let bin = format!("{}/fuzz/target/x86_64-unknown-linux-gnu/release/{}", root, target);
    let work = format!("{}/fuzz/corpus-work/{}", root, target);
    let _ = std::fs::remove_dir_all(&work);
    let _ = std::fs::create_dir_all(&work);
    let committed = format!("{}/corpus/{}", crate::engine::verif_dir(), target);
    let mut n_seeds = 0;
    if let Ok(rd) = std::fs::read_dir(&committed) {
        for e in rd.flatten() {
            if let Ok(b) = std::fs::read(e.path()) {
                let _ = std::fs::write(format!("{}/committed-{}", work, e.file_name().to_string_lossy()), b);
                n_seeds += 1;
            }
        }
    }
    for (i, s) in seeds(id, ctx.seed).into_iter().enumerate() {
        let _ = std::fs::write(format!("{}/seed-{:04}", work, i), s);
        n_seeds += 1;
    }
    let dict = format!("{}/fuzz/{}.dict", root, target);
    let _ = std::fs::write(&dict, dictionary());
    let art_dir = format!("{}/replays", crate::engine::verif_dir());
    let _ = std::fs::create_dir_all(&art_dir);
    let prefix = format!("{}/{}-fuzz-{}-", art_dir, id, ctx.seed);
    // remove artefacts of earlier campaigns with the same prefix
    if let Ok(rd) = std::fs::read_dir(&art_dir) {
        for e in rd.flatten() {
            if e.path().to_string_lossy().starts_with(&prefix) {
                let _ = std::fs::remove_file(e.path());
            }
        }
    }
    let run_log = format!("{}/fuzz/run-{}.log", root, target);
    let seed_arg = if ctx.seed == 0 { 1 } else { ctx.seed % 4_000_000_000 };
    let rc = run_cmd(
        std::process::Command::new(&bin).current_dir(format!("{}/fuzz", root)).env("TZ", "UTC").args([
            work.as_str(),
            &format!("-dict={}", dict),
            &format!("-fork={}", ctx.threads),
            &format!("-max_total_time={}", secs),
            "-timeout=20",
            "-rss_limit_mb=4096",
            "-len_control=0",
            "-max_len=1500",
            "-ignore_ooms=1",
            "-ignore_timeouts=0",
            "-ignore_crashes=0",
            &format!("-seed={}", seed_arg),
            &format!("-artifact_prefix={}", prefix),
        ]),
        &run_log,
    );
    let log = std::fs::read_to_string(&run_log).unwrap_or_default();
    // "#123456: cov: 9000 ft: 30000 corp: 2500 exec/s 800 oom/timeout/crash: 0/0/0 time: 60s job: 7 dft_time: 0"
    let mut execs = 0u64;
    let mut cov = 0u64;
    let mut ft = 0u64;
    let mut corp = 0u64;
    for l in log.lines() {
        if let Some(rest) = l.strip_prefix('#') {
            let mut it = rest.split_whitespace();
            if let Some(n) = it.next().and_then(|s| s.trim_end_matches(':').parse::<u64>().ok()) {
                let words: Vec<&str> = it.collect();
                let get = |k: &str| words.iter().position(|w| *w == k).and_then(|i| words.get(i + 1)).and_then(|s| s.parse::<u64>().ok());
                if let (Some(c), Some(f)) = (get("cov:"), get("ft:")) {
                    execs = execs.max(n);
                    cov = cov.max(c);
                    ft = ft.max(f);
                    corp = corp.max(get("corp:").unwrap_or(0));
                }
            }
        }
    }
    // artefacts
    let mut crashes = vec![];
    let mut timeouts = vec![];
    if let Ok(rd) = std::fs::read_dir(&art_dir) {
        for e in rd.flatten() {
            let p = e.path().to_string_lossy().to_string();
            if let Some(rest) = p.strip_prefix(&prefix) {
                if rest.starts_with("crash-") {
                    crashes.push(p.clone());
                } else if rest.starts_with("timeout-") {
                    timeouts.push(p.clone());
                }
            }
        }
    }
    crashes.sort();
    timeouts.sort();
    eprintln!("[{} fuzz:{}] rc={:?} seeds={} execs={} cov={} ft={} corpus={} crashes={} timeouts={} {:.0}s", id, target, rc, n_seeds, execs, cov, ft, corp, crashes.len(), timeouts.len(), t0.elapsed().as_secs_f64());
    let slot = Arc::new(WatchSlot { current: Mutex::new(None) });
    let mut w = Worker::new(0, ctx.tier, slot, Arc::new(BTreeSet::new()));
    w.frozen = true;
    let mut unexplained = 0;
    for p in &crashes {
        let data = std::fs::read(p).unwrap_or_default();
        let v = replay_raw(&mut w, id, &data);
        match &v.res {
            Res::Fail { msg, .. } => {
                ctx.push_violation("fuzz", json!({"id": id, "hex": hex(&data)}), v.rendered.clone(), format!("[libFuzzer artefact {}] {}", p, msg));
            }
            _ => {
                unexplained += 1;
                eprintln!("[{}] artefact {} does not fail when replayed in-process (harness-side abort or flaky); not reported", id, p);
            }
        }
    }
    for p in &timeouts {
        // confirm in a fresh process with a 120 s limit, exactly like the in-process watchdog does
        let data = std::fs::read(p).unwrap_or_default();
        let c = decode_c01(&data);
        let probe = format!("{}.probe.json", p);
        let _ = std::fs::write(&probe, json!({"case": {"cfg": c.cfg, "lang": c.lang, "text": c.text}}).to_string());
        let exe = std::env::current_exe().unwrap();
        let mut child = std::process::Command::new(exe).arg("--hang-probe").arg(&probe).spawn().expect("spawn probe");
        let t1 = std::time::Instant::now();
        let mut finished = false;
        while t1.elapsed() < std::time::Duration::from_secs(120) {
            if let Ok(Some(_)) = child.try_wait() {
                finished = true;
                break;
            }
            std::thread::sleep(std::time::Duration::from_millis(200));
        }
        if !finished {
            let _ = child.kill();
            ctx.push_violation("fuzz", json!({"id": id, "hex": hex(&data)}), format!("{:?}", c.text), "evaluation does not terminate (libFuzzer -timeout=20, 120 s in a fresh process)".into());
        } else {
            eprintln!("[{}] timeout artefact {} finishes in {:.1}s in a fresh process: machine stall, ignored", id, p, t1.elapsed().as_secs_f64());
        }
        let _ = std::fs::remove_file(&probe);
    }
    // classify what the fuzzer kept: run the final corpus through the same oracle in-process
    let mut cases = vec![];
    if let Ok(rd) = std::fs::read_dir(&work) {
        let mut names: Vec<_> = rd.flatten().map(|e| e.path()).collect();
        names.sort();
        for p in names {
            if let Ok(b) = std::fs::read(&p) {
                cases.push(RawCase { id: id.to_string(), hex: hex(&b) });
            }
        }
    }
    let kept = cases.len();
    let label: &'static str = if id == "C01" { "fuzz-corpus:c01_total" } else { "fuzz-corpus:c17_spans" };
    ctx.run_table(&FuzzCorpus("fuzz"), label, cases, false);
    ctx.add_section(json!({
        "sub": "fuzz", "part": format!("libFuzzer:{}", target), "engine": "cargo-fuzz 0.13 / libFuzzer (sanitizer none: the library is safe Rust; debug assertions and overflow checks on), -fork, dictionary from the vocabulary",
        "seconds": secs, "jobs": ctx.threads, "seed_inputs": n_seeds, "executions": execs, "edge_coverage": cov, "features": ft,
        "corpus_kept": kept, "crash_artefacts": crashes.len(), "timeout_artefacts": timeouts.len(), "artefacts_not_reproduced": unexplained,
        "exit_code": rc, "wall_s": t0.elapsed().as_secs_f64().round(),
    }));
    ctx.add_evaluations(execs);
    if execs == 0 {
        ctx.note_inconclusive("the libFuzzer campaign reported no executions");
    }
}
