//! Calculator construction/configuration, guarded evaluation, value extraction.

use crate::engine::{guarded, PanicInfo, Worker};
use serde::{Deserialize, Serialize};
use smartcalc::{NumberType, SmartCalc, SmartCalcAstType, TokenType, UiToken};
use std::collections::HashMap;
use std::ops::Deref;

/// A calculator configuration reachable through the public setters.
#[derive(Clone, Debug, PartialEq, Eq, Hash, Serialize, Deserialize, Default)]
pub struct Cfg {
    /// decimal separator (None = library default ",")
    pub dec: Option<String>,
    /// thousands separator (None = library default ".")
    pub thou: Option<String>,
    /// default time zone through set_timezone (None = UTC default)
    pub tz: Option<String>,
    /// set_number_configuration(digits, remove_fract_if_zero, use_fract_rounding)
    pub num: Option<(u8, bool, bool)>,
    pub pct: Option<(u8, bool, bool)>,
    /// set_money_configuration(remove_fract_if_zero, use_fract_rounding)
    pub money: Option<(bool, bool)>,
    /// order of the setter calls: odd = thousands separator before decimal separator (and the format setters
    /// before the separators); the resulting configuration is the same
    #[serde(default)]
    pub order: u8,
}

impl Cfg {
    pub fn seps(dec: &str, thou: &str) -> Cfg {
        Cfg { dec: Some(dec.to_string()), thou: Some(thou.to_string()), ..Cfg::default() }
    }
    pub fn dec(&self) -> &str {
        self.dec.as_deref().unwrap_or(",")
    }
    pub fn thou(&self) -> &str {
        self.thou.as_deref().unwrap_or(".")
    }
    pub fn with_tz(mut self, tz: &str) -> Cfg {
        self.tz = Some(tz.to_string());
        self
    }
    pub fn label(&self) -> String {
        let mut s = format!("dec={:?} thou={:?}", self.dec(), self.thou());
        if let Some(t) = &self.tz {
            s += &format!(" tz={}", t);
        }
        if let Some(n) = &self.num {
            s += &format!(" num={:?}", n);
        }
        if let Some(n) = &self.pct {
            s += &format!(" pct={:?}", n);
        }
        if let Some(n) = &self.money {
            s += &format!(" money={:?}", n);
        }
        if self.order % 2 == 1 {
            s += " (thousands separator set before the decimal separator)";
        }
        s
    }
}

/// The four separator configurations the number reader can accept (C08 statement).
pub const READ_SEPS: [(&str, &str); 4] = [(",", "."), (".", ","), (".", ""), (",", "")];

static LOG_OFF: std::sync::Once = std::sync::Once::new();

pub fn build_calc(cfg: &Cfg) -> SmartCalc {
    let mut c = SmartCalc::default();
    LOG_OFF.call_once(|| log::set_max_level(log::LevelFilter::Off));
    log::set_max_level(log::LevelFilter::Off);
    if cfg.order % 2 == 1 {
        if let Some(t) = &cfg.thou {
            c.set_thousand_separator(t.clone());
        }
        if let Some(d) = &cfg.dec {
            c.set_decimal_seperator(d.clone());
        }
    } else {
        if let Some(d) = &cfg.dec {
            c.set_decimal_seperator(d.clone());
        }
        if let Some(t) = &cfg.thou {
            c.set_thousand_separator(t.clone());
        }
    }
    if let Some(tz) = &cfg.tz {
        let _ = c.set_timezone(tz.clone());
    }
    if let Some((d, r, f)) = cfg.num {
        c.set_number_configuration(d, r, f);
    }
    if let Some((d, r, f)) = cfg.pct {
        c.set_percentage_configuration(d, r, f);
    }
    if let Some((r, f)) = cfg.money {
        c.set_money_configuration(r, f);
    }
    c
}

pub struct CalcCache {
    map: HashMap<Cfg, (SmartCalc, u32)>,
    /// one long-lived calculator that is re-configured through the setters before each use
    scratch: Option<SmartCalc>,
}

/// apply every setting of `cfg` (library defaults where it says nothing) to a live calculator
pub fn apply_cfg(c: &mut SmartCalc, cfg: &Cfg) {
    if cfg.order % 2 == 1 {
        c.set_thousand_separator(cfg.thou().to_string());
        c.set_decimal_seperator(cfg.dec().to_string());
    } else {
        c.set_decimal_seperator(cfg.dec().to_string());
        c.set_thousand_separator(cfg.thou().to_string());
    }
    let _ = c.set_timezone(cfg.tz.clone().unwrap_or_else(|| "UTC".to_string()));
    let (d, r, f) = cfg.num.unwrap_or((2, true, true));
    c.set_number_configuration(d, r, f);
    let (d, r, f) = cfg.pct.unwrap_or((2, true, true));
    c.set_percentage_configuration(d, r, f);
    let (r, f) = cfg.money.unwrap_or((false, true));
    c.set_money_configuration(r, f);
}

impl CalcCache {
    pub fn new() -> Self {
        CalcCache { map: HashMap::new(), scratch: None }
    }
    pub fn get(&mut self, cfg: &Cfg) -> &SmartCalc {
        if self.map.len() > 64 && !self.map.contains_key(cfg) {
            // keep the configurations that are in regular use, drop the one-off ones
            self.map.retain(|_, (_, n)| *n >= 3);
            if self.map.len() > 48 {
                self.map.clear();
            }
        }
        let e = self.map.entry(cfg.clone()).or_insert_with(|| (build_calc(cfg), 0));
        e.1 = e.1.saturating_add(1);
        &e.0
    }
    /// the long-lived calculator, re-configured to `cfg` through the public setters
    pub fn reconfigured(&mut self, cfg: &Cfg) -> &SmartCalc {
        if self.scratch.is_none() {
            self.scratch = Some(build_calc(&Cfg::default()));
        }
        let c = self.scratch.as_mut().unwrap();
        apply_cfg(c, cfg);
        c
    }
    pub fn forget_scratch(&mut self) {
        self.scratch = None;
    }
    /// drop a cached calculator (after a panic happened inside it, to be safe)
    pub fn forget(&mut self, cfg: &Cfg) {
        self.map.remove(cfg);
    }
}

#[derive(Clone, Copy, Debug, PartialEq, Eq, Serialize, Deserialize)]
pub enum NT {
    Decimal,
    Octal,
    Hex,
    Binary,
    Raw,
}

/// The value of a result, read from the public AST.
#[derive(Clone, Debug, PartialEq)]
pub enum V {
    Num(f64, NT),
    Pct(f64),
    Money(f64, String),
    /// whole seconds, sub-second nanoseconds
    Dur(i64, i32),
    /// UTC instant (seconds since epoch, nanos), zone name, zone offset in minutes
    Time(i64, u32, String, i32),
    /// days since 0001-01-01 (= chrono num_days_from_ce), zone name, offset
    Date(i32, String, i32),
    DateTime(i64, String, i32),
    /// amount, family, index
    Unit(f64, String, usize),
    /// the AST is not a value item (Month, None, Symbol ...)
    NoValue(String),
}

impl V {
    pub fn kind(&self) -> &'static str {
        match self {
            V::Num(..) => "number",
            V::Pct(..) => "percent",
            V::Money(..) => "money",
            V::Dur(..) => "duration",
            V::Time(..) => "time",
            V::Date(..) => "date",
            V::DateTime(..) => "datetime",
            V::Unit(..) => "unit",
            V::NoValue(..) => "novalue",
        }
    }
    /// exact equality, f64 compared by bits except that 0.0 == -0.0 and NaN == NaN
    pub fn same(&self, o: &V) -> bool {
        fn feq(a: f64, b: f64) -> bool {
            a == b || (a.is_nan() && b.is_nan())
        }
        match (self, o) {
            (V::Num(a, t), V::Num(b, u)) => feq(*a, *b) && t == u,
            (V::Pct(a), V::Pct(b)) => feq(*a, *b),
            (V::Money(a, c), V::Money(b, d)) => feq(*a, *b) && c == d,
            (V::Unit(a, g, i), V::Unit(b, h, j)) => feq(*a, *b) && g == h && i == j,
            (a, b) => a == b,
        }
    }
}

pub fn token_to_v(t: &TokenType) -> V {
    use chrono::Datelike;
    match t {
        TokenType::Number(n, nt) => V::Num(
            *n,
            match nt {
                NumberType::Decimal => NT::Decimal,
                NumberType::Octal => NT::Octal,
                NumberType::Hexadecimal => NT::Hex,
                NumberType::Binary => NT::Binary,
                NumberType::Raw => NT::Raw,
            },
        ),
        TokenType::Percent(p) => V::Pct(*p),
        TokenType::Money(a, c) => V::Money(*a, c.code.clone()),
        TokenType::Duration(d) => {
            let secs = d.num_seconds();
            let rest = *d - chrono::Duration::seconds(secs);
            V::Dur(secs, rest.num_nanoseconds().unwrap_or(0) as i32)
        }
        TokenType::Time(t, tz) => V::Time(t.timestamp(), t.timestamp_subsec_nanos(), tz.name.clone(), tz.offset),
        TokenType::Date(d, tz) => V::Date(d.num_days_from_ce(), tz.name.clone(), tz.offset),
        TokenType::DateTime(t, tz) => V::DateTime(t.timestamp(), tz.name.clone(), tz.offset),
        TokenType::DynamicType(a, dt) => V::Unit(*a, dt.group_name.clone(), dt.index),
        other => V::NoValue(other.type_name()),
    }
}

pub fn ast_to_v(ast: &SmartCalcAstType) -> V {
    match ast {
        SmartCalcAstType::Item(item) => token_to_v(&item.as_token_type()),
        other => V::NoValue(other.type_name()),
    }
}

#[derive(Clone, Debug, PartialEq)]
pub enum Slot {
    /// None: nothing to evaluate
    Nothing,
    Err(String),
    Ok { out: String, v: V },
}

impl Slot {
    pub fn value(&self) -> Option<&V> {
        match self {
            Slot::Ok { v, .. } => Some(v),
            _ => None,
        }
    }
    pub fn out(&self) -> Option<&str> {
        match self {
            Slot::Ok { out, .. } => Some(out),
            _ => None,
        }
    }
    pub fn same(&self, o: &Slot) -> bool {
        match (self, o) {
            (Slot::Nothing, Slot::Nothing) => true,
            (Slot::Err(a), Slot::Err(b)) => a == b,
            (Slot::Ok { out: a, v: x }, Slot::Ok { out: b, v: y }) => a == b && x.same(y),
            _ => false,
        }
    }
    pub fn brief(&self) -> String {
        match self {
            Slot::Nothing => "<nothing>".into(),
            Slot::Err(e) => format!("Err({})", e),
            Slot::Ok { out, v } => format!("{:?} => {:?}", out, v),
        }
    }
}

#[derive(Clone, Debug)]
pub struct EvalOut {
    pub status: bool,
    pub slots: Vec<Slot>,
    pub ui: Vec<Vec<UiToken>>,
}

/// the result type of execute/execute_session lives in a private module and cannot be named
macro_rules! convert_result {
    ($r:expr) => {{
        let r = $r;
        let mut slots = vec![];
        let mut ui = vec![];
        for l in r.lines.iter() {
            match l {
                None => {
                    slots.push(Slot::Nothing);
                    ui.push(vec![]);
                }
                Some(l) => {
                    ui.push(l.ui_tokens.clone());
                    match &l.result {
                        Ok(res) => slots.push(Slot::Ok { out: res.output.clone(), v: ast_to_v(res.ast.deref()) }),
                        Err(e) => slots.push(Slot::Err(e.clone())),
                    }
                }
            }
        }
        EvalOut { status: r.status, slots, ui }
    }};
}

/// Evaluate `text` on `calc`; a panic is returned as Err with its call site.
pub fn eval_on(calc: &SmartCalc, lang: &str, text: &str) -> Result<EvalOut, PanicInfo> {
    guarded(|| convert_result!(calc.execute(lang, text)))
}

/// set_text + execute_session on a (re-used) session
pub fn eval_session(calc: &SmartCalc, session: &mut smartcalc::Session, lang: &str, text: &str) -> Result<EvalOut, PanicInfo> {
    guarded(|| {
        session.set_language(lang.to_string());
        session.set_text(text.to_string());
        convert_result!(calc.execute_session(session))
    })
}

/// execute_session without setting a text
pub fn eval_session_again(calc: &SmartCalc, session: &smartcalc::Session) -> Result<EvalOut, PanicInfo> {
    guarded(|| convert_result!(calc.execute_session(session)))
}

impl Worker {
    /// Evaluate on the cached calculator for `cfg`.
    pub fn eval(&mut self, cfg: &Cfg, lang: &str, text: &str) -> Result<EvalOut, PanicInfo> {
        self.count_eval(1);
        self.watch_begin(&serde_json::json!({"cfg": cfg, "lang": lang, "text": text}).to_string());
        let r = {
            let calc = self.calcs.get(cfg);
            eval_on(calc, lang, text)
        };
        self.watch_end();
        if r.is_err() {
            self.calcs.forget(cfg);
        }
        r
    }

    /// Evaluate on the long-lived calculator after re-applying every setter (cheap when the
    /// configuration changes with every case). Only for configurations whose zone is valid or absent.
    pub fn eval_reconfigured(&mut self, cfg: &Cfg, lang: &str, text: &str) -> Result<EvalOut, PanicInfo> {
        self.count_eval(1);
        self.watch_begin(&serde_json::json!({"cfg": cfg, "lang": lang, "text": text}).to_string());
        let r = {
            let calc = self.calcs.reconfigured(cfg);
            eval_on(calc, lang, text)
        };
        self.watch_end();
        if r.is_err() {
            self.calcs.forget_scratch();
        }
        r
    }

    /// Evaluate a single line and return its only slot (a panic or a wrong slot count is an Err string).
    pub fn eval1(&mut self, cfg: &Cfg, lang: &str, line: &str) -> Result<Slot, String> {
        match self.eval(cfg, lang, line) {
            Err(p) => Err(format!("panic at {}: {}", p.site, p.message)),
            Ok(o) => {
                if !o.status || o.slots.len() != 1 {
                    Err(format!("status={} slots={} for a one-line text", o.status, o.slots.len()))
                } else {
                    Ok(o.slots.into_iter().next().unwrap())
                }
            }
        }
    }
}

/// relative/absolute tolerance used when a reference model recomputes a value
pub fn close(got: f64, exp: f64) -> bool {
    if got == exp {
        return true;
    }
    if !got.is_finite() || !exp.is_finite() {
        return false;
    }
    (got - exp).abs() <= 1e-9 * exp.abs().max(1.0)
}

/// like `close`, with the tolerance relative to the magnitude of the operands (sums that cancel)
pub fn close_scaled(got: f64, exp: f64, scale: f64) -> bool {
    if got == exp {
        return true;
    }
    if !got.is_finite() || !exp.is_finite() {
        return false;
    }
    (got - exp).abs() <= 1e-9 * exp.abs().max(1.0).max(scale.abs())
}

/// Render an f64 as a decimal literal without exponent (shortest round-trip digits).
pub fn plain_f64(v: f64) -> String {
    // Rust's Display for f64 never uses an exponent
    format!("{}", v)
}

/// Render a non-negative finite number as a literal in the given convention, optionally grouped.
pub fn literal(v: f64, dec: &str, thou: &str, group: bool) -> String {
    let s = plain_f64(v.abs());
    let (int, frac) = match s.split_once('.') {
        Some((i, f)) => (i.to_string(), Some(f.to_string())),
        None => (s.clone(), None),
    };
    let mut out = String::new();
    if v.is_sign_negative() && v != 0.0 {
        out.push('-');
    }
    if group && !thou.is_empty() && int.len() > 3 {
        let bytes: Vec<char> = int.chars().collect();
        let first = bytes.len() % 3;
        for (i, ch) in bytes.iter().enumerate() {
            if i != 0 && (i + 3 - first) % 3 == 0 {
                out.push_str(thou);
            }
            out.push(*ch);
        }
    } else {
        out.push_str(&int);
    }
    if let Some(f) = frac {
        out.push_str(dec);
        out.push_str(&f);
    }
    out
}
