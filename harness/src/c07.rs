//! C07 — numbers print correctly rounded, grouped and signed in every format setting.
//!
//! Oracle: an independent formatter built on the exact decimal expansion of the binary double.

use crate::common::{literal, Cfg, Slot, NT, V};
use crate::engine::{Acc, Ctx, Prop, Verdict, Worker};
use crate::vocab::vocab;
use proptest::prelude::*;
use serde::{Deserialize, Serialize};

#[derive(Clone, Debug, PartialEq, Serialize, Deserialize)]
pub enum Kind {
    Number,
    Percent,
    /// lower-case currency key
    Money(String),
    /// (unit source spelling, printed format template)
    Unit(String, String),
}

#[derive(Clone, Debug, Serialize, Deserialize)]
pub struct Case {
    /// the value as IEEE bits (exact in JSON)
    pub bits: u64,
    pub kind: Kind,
    pub dec: String,
    pub thou: String,
    pub digits: u8,
    pub remove_zero: bool,
    pub rounding: bool,
}

impl Case {
    pub fn v(&self) -> f64 {
        f64::from_bits(self.bits)
    }
}

/// exact decimal digits of |v|: (integer digits, fraction digits without trailing zeros)
pub fn exact_digits(v: f64) -> (String, String) {
    let s = format!("{:.1100}", v.abs());
    let (i, f) = s.split_once('.').unwrap();
    (i.to_string(), f.trim_end_matches('0').to_string())
}

fn increment(digits: &mut Vec<u8>) -> bool {
    // add one unit in the last place; returns true on carry out
    for d in digits.iter_mut().rev() {
        if *d == 9 {
            *d = 0;
        } else {
            *d += 1;
            return false;
        }
    }
    true
}

/// All correctly rounded d-digit renderings of |v| as (int digits, frac digits): one, or the two
/// neighbours when v lies exactly half-way.
pub fn round_exact(v: f64, d: usize) -> Vec<(String, String)> {
    let (int, frac) = exact_digits(v);
    let mut fr: Vec<u8> = frac.bytes().map(|b| b - b'0').collect();
    while fr.len() < d + 1 {
        fr.push(0);
    }
    let kept: Vec<u8> = fr[..d].to_vec();
    let tail = &fr[d..];
    let first = tail[0];
    let rest_nonzero = tail[1..].iter().any(|x| *x != 0);
    let mut all: Vec<u8> = int.bytes().map(|b| b - b'0').collect();
    let int_len = all.len();
    all.extend(kept.iter());
    let render = |digits: &Vec<u8>, carry: bool| -> (String, String) {
        let mut s: String = digits.iter().map(|d| (b'0' + d) as char).collect();
        if carry {
            s.insert(0, '1');
        }
        let il = if carry { int_len + 1 } else { int_len };
        (s[..il].to_string(), s[il..].to_string())
    };
    let down = render(&all, false);
    let mut up_digits = all.clone();
    let carry = increment(&mut up_digits);
    let up = render(&up_digits, carry);
    if first > 5 || (first == 5 && rest_nonzero) {
        vec![up]
    } else if first < 5 {
        vec![down]
    } else {
        vec![down, up]
    }
}

pub fn group(int: &str, thou: &str) -> String {
    let n = int.len();
    let mut s = String::new();
    for (i, ch) in int.chars().enumerate() {
        if i != 0 && (n - i) % 3 == 0 {
            s.push_str(thou);
        }
        s.push(ch);
    }
    s
}

/// every acceptable rendering of the bare number
pub fn expected_number(v: f64, dec: &str, thou: &str, digits: u8, remove_zero: bool, rounding: bool) -> Vec<String> {
    let candidates: Vec<(String, String)> = if rounding {
        round_exact(v, digits as usize)
    } else {
        // shortest round-trip representation
        let s = format!("{}", v.abs());
        match s.split_once('.') {
            Some((i, f)) => vec![(i.to_string(), f.to_string())],
            None => vec![(s, String::new())],
        }
    };
    let mut out = vec![];
    for (int, frac) in candidates {
        let mut body = group(&int, thou);
        let frac_zero = frac.bytes().all(|b| b == b'0');
        if !frac.is_empty() && !(remove_zero && frac_zero) {
            body.push_str(dec);
            body.push_str(&frac);
        }
        let magnitude_zero = int.bytes().all(|b| b == b'0') && frac_zero;
        if v < 0.0 {
            out.push(format!("-{}", body));
            if magnitude_zero {
                // a negative value that rounds to zero: both "-0" and "0" are accepted
                out.push(body);
            }
        } else {
            out.push(body);
        }
    }
    out.sort();
    out.dedup();
    out
}

pub fn expected_outputs(c: &Case) -> Vec<String> {
    let v = c.v();
    match &c.kind {
        Kind::Number => expected_number(v, &c.dec, &c.thou, c.digits, c.remove_zero, c.rounding),
        Kind::Percent => expected_number(v, &c.dec, &c.thou, c.digits, c.remove_zero, c.rounding).into_iter().map(|s| format!("%{}", s)).collect(),
        Kind::Money(key) => {
            let cur = &vocab().currencies[key];
            expected_number(v, &c.dec, &c.thou, cur.digits, c.remove_zero, c.rounding)
                .into_iter()
                .map(|s| match (cur.on_left, cur.space) {
                    (true, true) => format!("{} {}", cur.symbol, s),
                    (true, false) => format!("{}{}", cur.symbol, s),
                    (false, true) => format!("{} {}", s, cur.symbol),
                    (false, false) => format!("{}{}", s, cur.symbol),
                })
                .collect()
        }
        // unit quantities print with 2 digits, zero-fraction removal and rounding (no per-unit override is configured)
        Kind::Unit(_, format) => expected_number(v, &c.dec, &c.thou, 2, true, true).into_iter().map(|s| format.replace("{value}", &s)).collect(),
    }
}

pub fn case_cfg(c: &Case) -> Cfg {
    let mut cfg = Cfg { dec: Some(c.dec.clone()), thou: Some(c.thou.clone()), ..Cfg::default() };
    match &c.kind {
        Kind::Number => cfg.num = Some((c.digits, c.remove_zero, c.rounding)),
        Kind::Percent => cfg.pct = Some((c.digits, c.remove_zero, c.rounding)),
        Kind::Money(_) => cfg.money = Some((c.remove_zero, c.rounding)),
        Kind::Unit(..) => {}
    }
    cfg
}

pub fn case_line(c: &Case) -> String {
    let v = c.v();
    match &c.kind {
        // exact injection, independent of the separators
        Kind::Number => format!("[NUMBER:{}]", v),
        Kind::Percent => format!("[PERCENT:{}]", v),
        // the [MONEY:x;code] atom is unusable (the global alias ';' -> '' rewrites it): literal in the current convention
        Kind::Money(key) => format!("{} {}", literal(v, &c.dec, "", false), key),
        Kind::Unit(name, _) => format!("{} {}", literal(v, &c.dec, "", false), name),
    }
}

pub struct Print;

impl Prop for Print {
    type Case = Case;
    fn name(&self) -> &'static str {
        "print"
    }
    fn check(&self, w: &mut Worker, c: &Case) -> Verdict {
        let cfg = case_cfg(c);
        let line = case_line(c);
        let rendered = format!("[{}] {} (value {:?})", cfg.label(), line, c.v());
        // the format settings change with every case: re-configure one live calculator through the setters
        let slot = match w.eval_reconfigured(&cfg, "en", &line) {
            Ok(o) if o.status && o.slots.len() == 1 => o.slots.into_iter().next().unwrap(),
            Ok(o) => return Verdict::fail(format!("status={} slots={}", o.status, o.slots.len()), rendered),
            Err(p) => return Verdict::fail(format!("panic at {}: {}", p.site, p.message), rendered),
        };
        let exp = expected_outputs(c);
        let mut acc = Acc::new();
        match &slot {
            Slot::Ok { out, .. } => {
                if !exp.contains(out) {
                    acc.fail(format!("printed {:?}, expected {}", out, exp.iter().map(|s| format!("{:?}", s)).collect::<Vec<_>>().join(" or ")));
                }
            }
            other => acc.fail(format!("expected a printed value, got {}", other.brief())),
        }
        let v = c.v();
        let digits = match &c.kind {
            Kind::Money(k) => vocab().currencies[k].digits,
            Kind::Unit(..) => 2,
            _ => c.digits,
        };
        let interesting_value = v.fract() != 0.0 || v.abs() >= 1000.0 || v < 0.0;
        let near_boundary = {
            // within 1 ulp of a half-way point of the last printed digit
            let scaled = v.abs() * 10f64.powi(digits as i32);
            let fr = scaled - scaled.floor();
            (fr - 0.5).abs() < 1e-6
        };
        let non_default = c.digits != 2 || !c.rounding || !c.remove_zero || c.dec != "," || c.thou != ".";
        let kind: &'static str = match &c.kind {
            Kind::Number => "kind:number",
            Kind::Percent => "kind:percent",
            Kind::Money(_) => "kind:money",
            Kind::Unit(..) => "kind:unit",
        };
        acc.finish(rendered)
            .nt(interesting_value && (non_default || near_boundary))
            .class(kind)
            .class_if(near_boundary, "near-rounding-boundary")
            .class_if(exp.len() > 1 && v >= 0.0, "exact-tie")
            .class_if(v < 0.0, "negative")
            .class_if(v.abs() >= 1000.0, "has-thousands-group")
            .class_if(!c.rounding, "rounding-off")
            .class_if(!c.remove_zero, "zero-fraction-kept")
            .class_if(v != 0.0 && v.abs() < 0.5 * 10f64.powi(-(digits as i32)), "below-last-digit")
    }
}

// ---- generators ------------------------------------------------------------------------------

/// (decimal, thousands): the four reading conventions first, then printing-only pairs - also separators of several
/// characters (HTML entity, LaTeX thin space, two-character decimal mark)
pub const PRINT_SEPS: [(&str, &str); 11] = [(",", "."), (".", ","), (".", ""), (",", ""), (",", " "), (".", "'"), ("", ""), (",", "&nbsp;"), (".", "\\,"), ("::", "'"), (",", "\u{202f}")];

fn ulps(v: f64) -> Vec<f64> {
    if v == 0.0 || !v.is_finite() {
        return vec![v];
    }
    let b = v.to_bits();
    vec![v, f64::from_bits(b + 1), f64::from_bits(b - 1)]
}

pub fn boundary_values() -> Vec<f64> {
    let mut v: Vec<f64> = vec![];
    let bases = [0.0, 1.0, 2.0, 9.0, 10.0, 99.0, 999.0, 1000.0, 999999.0, 1000000.0, 123456789.0];
    for d in 0..=9i32 {
        let unit = 10f64.powi(-d);
        for b in bases {
            for k in [0.0, 1.0, 4.0, 5.0, 9.0] {
                // b + k units + half a unit
                let x: f64 = format!("{}", b + k * unit + unit / 2.0).parse().unwrap();
                v.extend(ulps(x));
                let y = b + k * unit;
                v.push(y);
            }
        }
    }
    for x in [0.995, 1.005, 999.995, 99.995, 0.125, 0.375, 2.5, 0.5, 1.5, 0.045, 0.004, 0.005, 0.0049999, 1e-7, 1e-9, 5.00001, 5.001, 0.1, 0.2, 0.3, 1.0 / 3.0, 2.0 / 3.0, 999.9999999, 999999.995, 1e15, 1e21, 1e22, 123456789012345680000.0, 4.35, 4.345, 4.355, 1.45, 8.345, 1.0000000000000002, 0.30000000000000004, 9007199254740993.0, 72057594037927940.0] {
        v.extend(ulps(x));
    }
    let mut all = vec![];
    for x in v {
        all.push(x);
        all.push(-x);
    }
    all.retain(|x| x.is_finite());
    all.sort_by(|a, b| a.partial_cmp(b).unwrap());
    all.dedup();
    all
}

pub fn table() -> Vec<Case> {
    let vals = boundary_values();
    let mut out = vec![];
    // numbers: all values x digits 0..9 x flags x 3 separator pairs (rotating), percent: rotating subset
    let mut k = 0usize;
    for v in &vals {
        for digits in 0..=9u8 {
            for (remove_zero, rounding) in [(true, true), (false, true), (true, false), (false, false)] {
                k += 1;
                let (dec, thou) = PRINT_SEPS[k % PRINT_SEPS.len()];
                // the full cross product would be ~10^6; the rotation keeps every (value,digits,flags) and every separator pair
                out.push(Case { bits: v.to_bits(), kind: if k % 5 == 0 { Kind::Percent } else { Kind::Number }, dec: dec.into(), thou: thou.into(), digits, remove_zero, rounding });
            }
        }
    }
    // money: every currency x a panel of values x flags
    let money_vals: [f64; 14] = [0.0, 0.995, 1.005, 0.5, 1.5, 2.5, 999.995, 1234.5, -1234.565, 1e9, -0.004, 0.0005, 1234.5675, 100.0];
    for (key, _) in vocab().currencies.iter() {
        for (i, v) in money_vals.iter().enumerate() {
            let (dec, thou) = PRINT_SEPS[i % 4];
            out.push(Case { bits: v.to_bits(), kind: Kind::Money(key.clone()), dec: dec.into(), thou: thou.into(), digits: 2, remove_zero: i % 2 == 0, rounding: i % 3 != 0 });
        }
    }
    // units: every unit spelling x a panel of values
    for u in &vocab().units {
        for name in &u.parse_names {
            for (i, v) in [0.0f64, 0.995, 1.005, 999.995, 1234.5, -2.5, 1e9, 12.345].iter().enumerate() {
                let (dec, thou) = PRINT_SEPS[i % 4];
                out.push(Case { bits: v.to_bits(), kind: Kind::Unit(name.clone(), u.format.clone()), dec: dec.into(), thou: thou.into(), digits: 2, remove_zero: true, rounding: true });
            }
        }
    }
    out
}

pub fn value_strategy() -> impl Strategy<Value = f64> {
    let bv = boundary_values();
    prop_oneof![
        3 => (1u64..=9_999_999_999_999_999u64, -9i32..=6).prop_map(|(m, e)| format!("{}e{}", m, e - 15).parse::<f64>().unwrap() * 1e15f64.powi(0)),
        3 => (0u64..=99_999_999_999u64, 0u32..=9).prop_map(|(m, d)| format!("{}.{:0w$}", m / 10u64.pow(d), m % 10u64.pow(d), w = d.max(1) as usize).parse::<f64>().unwrap()),
        // exactly on a half-way point of some digit
        2 => (0u64..=9_999_999u64, 0u32..=9).prop_map(|(m, d)| format!("{}.{:0w$}5", m / 10u64.pow(d), m % 10u64.pow(d), w = d.max(1) as usize).parse::<f64>().unwrap()),
        2 => prop::sample::select(bv),
        1 => (0u64..=999_999_999_999_999_999u64).prop_map(|m| m as f64 * 1000.0),
        1 => any::<f64>().prop_filter("finite, printable range", |v| v.is_finite() && v.abs() < 1e22 && (v.abs() > 1e-12 || *v == 0.0)),
    ]
    .prop_flat_map(|v| prop_oneof![3 => Just(v), 1 => Just(-v)])
}

pub fn case_strategy() -> impl Strategy<Value = Case> {
    let kinds = {
        let v = vocab();
        let curs: Vec<String> = v.currencies.keys().cloned().collect();
        let units: Vec<(String, String)> = v.units.iter().flat_map(|u| u.parse_names.iter().map(move |n| (n.clone(), u.format.clone()))).collect();
        prop_oneof![
            5 => Just(Kind::Number),
            2 => Just(Kind::Percent),
            2 => prop::sample::select(curs).prop_map(Kind::Money),
            1 => prop::sample::select(units).prop_map(|(n, f)| Kind::Unit(n, f)),
        ]
    };
    (value_strategy(), kinds, 0usize..PRINT_SEPS.len(), 0u8..=9, any::<bool>(), prop::bool::weighted(0.8)).prop_map(|(v, kind, sp, digits, remove_zero, rounding)| {
        // money and units are injected as literals: they need a convention the reader accepts
        let sp = match kind {
            Kind::Money(_) | Kind::Unit(..) => sp % 4,
            _ => sp,
        };
        let (dec, thou) = PRINT_SEPS[sp];
        // literals cannot carry more than ~17 significant digits without changing the value: fine, they are rendered from the f64
        Case { bits: v.to_bits(), kind, dec: dec.into(), thou: thou.into(), digits, remove_zero, rounding }
    })
}

// ---- a user-defined unit with its own format options -------------------------------------------------

/// add_dynamic_type_item(.., decimal_digits, use_fract_rounding, remove_fract_if_zero): a quantity of that unit is
/// printed by the same rule with exactly those options
#[derive(Clone, Debug, Serialize, Deserialize)]
pub struct UnitFormat {
    pub bits: u64,
    pub digits: u8,
    pub remove_zero: bool,
    pub rounding: bool,
    /// index into the four reading conventions
    pub seps: u8,
    /// which of the three options are given (bit 0 digits, bit 1 rounding, bit 2 zero removal); an option that is
    /// not given (None) takes the built-in units' value: 2 digits, rounding on, zero fractions removed
    #[serde(default = "all_given")]
    pub given: u8,
}

fn all_given() -> u8 {
    7
}

pub struct CustomUnitFormat;

impl Prop for CustomUnitFormat {
    type Case = UnitFormat;
    fn shrink_iters(&self) -> u32 {
        150
    }
    fn name(&self) -> &'static str {
        "custom-unit-format"
    }
    fn check(&self, w: &mut Worker, c: &UnitFormat) -> Verdict {
        let v = f64::from_bits(c.bits);
        let (dec, thou) = PRINT_SEPS[c.seps as usize % 4];
        let cfg = Cfg::seps(dec, thou);
        let line = format!("{} zib", literal(v, dec, "", false));
        let (o_digits, o_rounding, o_remove) = (if c.given & 1 != 0 { Some(c.digits) } else { None }, if c.given & 2 != 0 { Some(c.rounding) } else { None }, if c.given & 4 != 0 { Some(c.remove_zero) } else { None });
        let (digits, rounding, remove_zero) = (o_digits.unwrap_or(2), o_rounding.unwrap_or(true), o_remove.unwrap_or(true));
        let rendered = format!("[{} unit options digits={:?} rounding={:?} remove_zero={:?}] {} (value {:?})", cfg.label(), o_digits, o_rounding, o_remove, line, v);
        let mut calc = crate::common::build_calc(&cfg);
        let ok = crate::engine::guarded(|| {
            calc.add_dynamic_type("zibs".to_string())
                && calc.add_dynamic_type_item("zibs".to_string(), 1, "{value} zib".to_string(), vec!["{NUMBER:value} {TEXT:type:zib}".to_string()], "{value} / 10".to_string(), "{value} * 10".to_string(), vec!["zib".to_string()], o_digits, o_rounding, o_remove)
        });
        match ok {
            Ok(true) => {}
            Ok(false) => return Verdict::fail("registration of a fresh unit family was rejected".into(), rendered),
            Err(p) => return Verdict::fail(format!("registration panicked at {}: {}", p.site, p.message), rendered),
        }
        w.count_eval(1);
        let mut acc = Acc::new();
        match crate::common::eval_on(&calc, "en", &line) {
            Ok(o) => match o.slots.first() {
                Some(Slot::Ok { out, .. }) => {
                    let exp: Vec<String> = expected_number(v, dec, thou, digits, remove_zero, rounding).into_iter().map(|s| format!("{} zib", s)).collect();
                    if !exp.iter().any(|e| e == out) {
                        acc.fail(format!("printed {:?}, expected {}", out, exp.iter().map(|e| format!("{:?}", e)).collect::<Vec<_>>().join(" or ")));
                    }
                }
                other => acc.fail(format!("expected a quantity, got {:?}", other.map(|s| s.brief()))),
            },
            Err(p) => acc.fail(format!("panic at {}: {}", p.site, p.message)),
        }
        acc.finish(rendered).nt(v.fract() != 0.0 || v.abs() >= 1000.0).class("user-unit-with-format-options").class_if(rounding != remove_zero, "rounding-and-zero-removal-differ").class_if(c.given & 7 != 7 && c.given & 7 != 0, "some-options-not-given")
    }
}

pub fn unit_format_strategy() -> impl Strategy<Value = UnitFormat> {
    (value_strategy(), 0u8..=6, any::<bool>(), any::<bool>(), 0u8..4, prop_oneof![2 => Just(7u8), 3 => 0u8..8]).prop_map(|(v, digits, remove_zero, rounding, seps, given)| {
        // a literal carries the value exactly only for moderate magnitudes and non-negative values
        let v = if v.is_finite() && v.abs() < 1e15 { v.abs() } else { 1234.5678 };
        UnitFormat { bits: v.to_bits(), digits, remove_zero, rounding, seps, given }
    })
}

// ---- the printed form of COMPUTED results ---------------------------------------------------------------

/// Whatever line produced it - arithmetic, a phrase, a conversion, a quotient of two quantities, a name - a numeric
/// result (plain number, percentage, amount of money, quantity of a built-in unit) is printed by the rule above from the
/// value the AST reports.
#[derive(Clone, Debug, Serialize, Deserialize)]
pub struct Computed {
    pub g: crate::mixed::GenLine,
    pub seps: u8,
    pub digits: u8,
    pub remove_zero: bool,
    pub rounding: bool,
}

pub struct ComputedResults;

impl Prop for ComputedResults {
    type Case = Computed;
    fn name(&self) -> &'static str {
        "computed-results"
    }
    fn check(&self, w: &mut Worker, c: &Computed) -> Verdict {
        let (dec, thou) = PRINT_SEPS[c.seps as usize % 4];
        let mut cfg = Cfg::seps(dec, thou);
        cfg.tz = c.g.tz.clone();
        cfg.num = Some((c.digits, c.remove_zero, c.rounding));
        cfg.pct = Some((c.digits, c.remove_zero, c.rounding));
        cfg.money = Some((c.remove_zero, c.rounding));
        let text = c.g.text(dec, thou);
        let rendered = format!("[{} {} {}] {}", c.g.src, c.g.lang, cfg.label(), text.replace('\n', " ; "));
        let out = match w.eval_reconfigured(&cfg, &c.g.lang, &text) {
            Ok(o) => o,
            Err(p) => return Verdict::fail(format!("panic at {}: {}", p.site, p.message), rendered),
        };
        let mut acc = Acc::new();
        let mut checked = 0;
        let mut kinds: Vec<&'static str> = vec![];
        for (i, slot) in out.slots.iter().enumerate() {
            let (v, printed) = match slot {
                Slot::Ok { v, out } => (v, out),
                _ => continue,
            };
            let ok_range = |x: f64| x.is_finite() && x.abs() < 1e15;
            let (exp, kind): (Vec<String>, &'static str) = match v {
                V::Num(x, NT::Decimal) if ok_range(*x) => (expected_number(*x, dec, thou, c.digits, c.remove_zero, c.rounding), "computed:number"),
                // only a unix timestamp is printed digit by digit (C14); no other result is of that kind
                V::Num(x, NT::Raw) if ok_range(*x) && !text.to_lowercase().contains("unix") => (expected_number(*x, dec, thou, c.digits, c.remove_zero, c.rounding), "computed:number"),
                V::Pct(x) if ok_range(*x) => (expected_number(*x, dec, thou, c.digits, c.remove_zero, c.rounding).into_iter().map(|s| format!("%{}", s)).collect(), "computed:percent"),
                V::Money(x, code) if ok_range(*x) => match vocab().currencies.get(&code.to_lowercase()) {
                    Some(cur) => (
                        expected_number(*x, dec, thou, cur.digits, c.remove_zero, c.rounding)
                            .into_iter()
                            .map(|s| match (cur.on_left, cur.space) {
                                (true, true) => format!("{} {}", cur.symbol, s),
                                (true, false) => format!("{}{}", cur.symbol, s),
                                (false, true) => format!("{} {}", s, cur.symbol),
                                (false, false) => format!("{}{}", s, cur.symbol),
                            })
                            .collect(),
                        "computed:money",
                    ),
                    None => continue,
                },
                V::Unit(x, g, idx) if ok_range(*x) => match vocab().units.iter().find(|u| u.group == *g && u.index == *idx) {
                    Some(u) => (expected_number(*x, dec, thou, 2, true, true).into_iter().map(|s| u.format.replace("{value}", &s)).collect(), "computed:unit"),
                    None => continue,
                },
                _ => continue,
            };
            checked += 1;
            if !kinds.contains(&kind) {
                kinds.push(kind);
            }
            if !exp.contains(printed) {
                acc.fail(format!("line {}: the result {} is printed {:?}, expected {}", i + 1, slot.brief(), printed, exp.iter().map(|s| format!("{:?}", s)).collect::<Vec<_>>().join(" or ")));
                break;
            }
        }
        let mut vd = acc.finish(rendered).nt(checked > 0).class_if(c.digits != 2 || !c.rounding || !c.remove_zero, "non-default-format");
        for k in kinds {
            vd = vd.class(k);
        }
        vd
    }
}

pub fn computed_strategy() -> impl Strategy<Value = Computed> {
    (crate::mixed::any_line(), 0u8..4, prop_oneof![3 => Just(2u8), 2 => 0u8..=6], prop::bool::weighted(0.7), prop::bool::weighted(0.7)).prop_map(|(g, seps, digits, remove_zero, rounding)| Computed { g, seps, digits, remove_zero, rounding })
}

pub fn self_test() {
    assert_eq!(round_exact(0.125, 2), vec![("0".to_string(), "12".to_string()), ("0".to_string(), "13".to_string())]);
    assert_eq!(round_exact(0.995, 2), vec![("0".to_string(), "99".to_string())]); // 0.995 is below the tie in binary
    assert_eq!(round_exact(999.995, 2), vec![("1000".to_string(), "00".to_string())]); // 999.995 is above the tie in binary
    assert_eq!(round_exact(2.5, 0), vec![("2".to_string(), "".to_string()), ("3".to_string(), "".to_string())]);
    assert_eq!(round_exact(9.96, 1), vec![("10".to_string(), "0".to_string())]);
    assert_eq!(expected_number(1234567.891, ",", ".", 2, true, true), vec!["1.234.567,89".to_string()]);
    assert_eq!(expected_number(-1000.0, ".", ",", 2, true, true), vec!["-1,000".to_string()]);
    assert_eq!(expected_number(-1000.0, ".", ",", 2, false, true), vec!["-1,000.00".to_string()]);
    assert_eq!(expected_number(5.001, ",", ".", 2, true, false), vec!["5,001".to_string()]);
    assert_eq!(expected_number(-0.004, ",", ".", 2, true, true), vec!["-0".to_string(), "0".to_string()]);
    // agreement with Rust's own correctly rounded formatting where it is unambiguous
    for (v, d) in [(1.0f64 / 3.0, 5usize), (2.0 / 3.0, 9), (123.456, 1), (0.1 + 0.2, 3), (1e21, 2), (7.0e-7, 6)] {
        let r = round_exact(v, d);
        assert_eq!(r.len(), 1);
        let s = format!("{:.*}", d, v);
        let (i, f) = s.split_once('.').unwrap_or((&s, ""));
        assert_eq!((r[0].0.as_str(), r[0].1.as_str()), (i, f), "{} {}", v, d);
    }
}

pub fn run(ctx: &Ctx) {
    self_test();
    ctx.rule("value x format: values = exact rounding boundaries for every digit count 0..9 (k/10^d + half a unit, +-1 ulp), group boundaries (999, 1000, 1e6, 1e15, 1e21, 1e22), values below one unit of the last digit, negatives, random mantissas with decimal exponents; format = digits 0..9 x zero-fraction removal x rounding on/off x 11 separator pairs (also separators of several characters); kinds: number and percent (exact atom injection), money for all 161 configured currencies (digit count, symbol, side, spacing from config.json), unit quantities (69 spellings); unit families registered with any subset of the three per-unit options (the others take the built-in units' values); computed results: the lines of every other generator under random number formats - every number, percentage, money and unit result is printed by the rule applied to the value the AST reports (a digit-by-digit number only on lines about unix timestamps); oracle = independent formatter on the exact decimal expansion of the double ({:.1100}), an exact tie accepts either neighbour, a negative value rounding to zero accepts -0 or 0; non-trivial = value is fractional, has >= 4 integer digits or is negative, AND the format differs from the default or the value lies on a rounding boundary");
    ctx.assume("digit counts >= 10, infinities and NaN are outside the statement (C01 covers them for panics)");
    ctx.run_table(&Print, "boundary-table", table(), true);
    ctx.run_generated(&Print, ctx.tier.pick(150_000, 3_000_000), case_strategy);
    ctx.run_generated(&CustomUnitFormat, ctx.tier.pick(400, 6_000), unit_format_strategy);
    // computed results of every other generator's lines: printed form = the rule applied to the AST value
    ctx.run_generated(&ComputedResults, ctx.tier.pick(40_000, 400_000), computed_strategy);
}

pub fn replay(w: &mut Worker, sub: &str, case: &serde_json::Value) -> Option<Verdict> {
    match sub {
        "print" => crate::engine::replay_case(&Print, w, case),
        "custom-unit-format" => crate::engine::replay_case(&CustomUnitFormat, w, case),
        "computed-results" => crate::engine::replay_case(&ComputedResults, w, case),
        _ => None,
    }
}
