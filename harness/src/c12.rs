//! C12 — unit conversion matches the unit definitions; linear, invertible, transitive.

use crate::common::{close, close_scaled, Cfg, Slot, NT, READ_SEPS, V};
use crate::engine::{monotone_index, Acc, Ctx, Prop, Verdict, Worker};
use crate::lines::{Class, Line, NumLit, Tok};
use crate::vocab::vocab;
use proptest::prelude::*;
use serde::{Deserialize, Serialize};

#[derive(Clone, Copy, Debug, PartialEq, Eq)]
pub enum Kind {
    Length,
    Weight,
    Memory,
}

/// Hard-coded definitions (never derived from config.json): (family, index) -> (kind, size in the
/// base unit: metre, gram, bit).
pub fn si(group: &str, index: usize) -> Option<(Kind, f64)> {
    let oz = 28.3495231;
    Some(match (group, index) {
        ("metric-length", 1) => (Kind::Length, 1e-3),
        ("metric-length", 2) => (Kind::Length, 1e-2),
        ("metric-length", 3) => (Kind::Length, 1e-1),
        ("metric-length", 4) => (Kind::Length, 1.0),
        ("metric-length", 5) => (Kind::Length, 10.0),
        ("metric-length", 6) => (Kind::Length, 100.0),
        ("metric-length", 7) => (Kind::Length, 1000.0),
        ("imperial-unit-length", 1) => (Kind::Length, 0.0254),
        ("imperial-unit-length", 2) => (Kind::Length, 0.3048),
        ("imperial-unit-length", 3) => (Kind::Length, 0.9144),
        ("imperial-unit-length", 4) => (Kind::Length, 201.168),
        ("imperial-unit-length", 5) => (Kind::Length, 1609.344),
        ("metric-weight", 1) => (Kind::Weight, 1e-3),
        ("metric-weight", 2) => (Kind::Weight, 1e-2),
        ("metric-weight", 3) => (Kind::Weight, 1e-1),
        ("metric-weight", 4) => (Kind::Weight, 1.0),
        ("metric-weight", 5) => (Kind::Weight, 10.0),
        ("metric-weight", 6) => (Kind::Weight, 100.0),
        ("metric-weight", 7) => (Kind::Weight, 1000.0),
        ("metric-weight", 8) => (Kind::Weight, 1e6),
        ("imperial-unit-weight", 1) => (Kind::Weight, oz),
        ("imperial-unit-weight", 2) => (Kind::Weight, 16.0 * oz),
        ("imperial-unit-weight", 3) => (Kind::Weight, 14.0 * 16.0 * oz),
        ("memory", 1) => (Kind::Memory, 1.0),
        ("memory", i) if (2..=10).contains(&i) => (Kind::Memory, 8.0 * 1024f64.powi(i as i32 - 2)),
        _ => return None,
    })
}

/// the same definitions by unit NAME (independent of config.json's name->unit mapping)
pub fn si_by_name(name: &str) -> Option<(Kind, f64)> {
    let oz = 28.3495231;
    Some(match name {
        "mm" | "millimeter" => (Kind::Length, 1e-3),
        "cm" | "centimeter" => (Kind::Length, 1e-2),
        "dm" | "decimeter" => (Kind::Length, 1e-1),
        "m" | "meter" => (Kind::Length, 1.0),
        "dam" | "decameter" => (Kind::Length, 10.0),
        "hm" | "hectometer" => (Kind::Length, 100.0),
        "km" | "kilometer" => (Kind::Length, 1000.0),
        "in" | "inch" => (Kind::Length, 0.0254),
        "ft" | "feet" | "foot" => (Kind::Length, 0.3048),
        "yard" => (Kind::Length, 0.9144),
        "furlong" => (Kind::Length, 201.168),
        "mile" => (Kind::Length, 1609.344),
        "mg" | "milligram" => (Kind::Weight, 1e-3),
        "cg" | "centigram" => (Kind::Weight, 1e-2),
        "dg" | "decigram" => (Kind::Weight, 1e-1),
        "g" | "gram" => (Kind::Weight, 1.0),
        "dag" | "decagram" => (Kind::Weight, 10.0),
        "hg" | "hectogram" => (Kind::Weight, 100.0),
        "kg" | "kilogram" => (Kind::Weight, 1000.0),
        "tonne" | "megagram" => (Kind::Weight, 1e6),
        "oz" | "ounce" => (Kind::Weight, oz),
        "lb" | "pound" => (Kind::Weight, 16.0 * oz),
        "st" | "stone" => (Kind::Weight, 224.0 * oz),
        "bit" => (Kind::Memory, 1.0),
        "byte" => (Kind::Memory, 8.0),
        "kb" | "kilobyte" | "kilobytes" => (Kind::Memory, 8.0 * 1024.0),
        "mb" | "mega" | "megabyte" | "megabytes" => (Kind::Memory, 8.0 * 1024f64.powi(2)),
        "gb" | "giga" | "gigabyte" | "gigabytes" => (Kind::Memory, 8.0 * 1024f64.powi(3)),
        "tb" | "tera" | "terabyte" | "terabytes" => (Kind::Memory, 8.0 * 1024f64.powi(4)),
        "pb" | "peta" | "petabyte" | "petabytes" => (Kind::Memory, 8.0 * 1024f64.powi(5)),
        "eb" | "exa" | "exabyte" | "exabytes" => (Kind::Memory, 8.0 * 1024f64.powi(6)),
        "zb" | "zetta" | "zettabyte" | "zettabytes" => (Kind::Memory, 8.0 * 1024f64.powi(7)),
        "yb" | "yotta" | "yottabyte" => (Kind::Memory, 8.0 * 1024f64.powi(8)),
        _ => return None,
    })
}

/// A unit as written: index into vocab().units, and which of its names is used
#[derive(Clone, Debug, PartialEq, Serialize, Deserialize)]
pub struct U {
    pub unit: usize,
    pub name: u32,
}

impl U {
    pub fn info(&self) -> &'static crate::vocab::Unit {
        &vocab().units[self.unit % vocab().units.len()]
    }
    pub fn source_name(&self) -> String {
        let u = self.info();
        u.parse_names[monotone_index(self.name, u.parse_names.len())].clone()
    }
    pub fn target_name(&self) -> String {
        let u = self.info();
        u.names[monotone_index(self.name, u.names.len())].clone()
    }
    pub fn si(&self) -> (Kind, f64) {
        let u = self.info();
        si(&u.group, u.index).expect("unit without a definition in the harness table")
    }
}

#[derive(Clone, Debug, Serialize, Deserialize)]
pub enum Shape {
    /// a U1 conn U2
    Convert(NumLit, U, u8, U),
    /// a U1 to U2 to U3
    Chain(NumLit, U, U, U),
    AddSub(NumLit, U, bool, NumLit, U),
    Scale(NumLit, U, bool, NumLit),
    Ratio(NumLit, U, NumLit, U),
    /// configuration sanity: the name (source spelling) denotes the unit the definitions say
    NameMap(U),
}

#[derive(Clone, Debug, Serialize, Deserialize)]
pub struct Case {
    pub shape: Shape,
    pub seps: usize,
    /// bit 0 / bit 1: write the first / second quantity without a blank between amount and unit (`5m`, `250g`)
    #[serde(default)]
    pub glue: u8,
    /// 1 / 2: the first / second quantity is ALSO held in a name bound on an earlier line (same value expected)
    #[serde(default)]
    pub via: u8,
}

pub const CONN: [&str; 4] = ["to", "in", "into", "as"];

fn q(a: &NumLit, u: &U) -> Vec<Tok> {
    vec![Tok::num(a.clone()), Tok::word(&u.source_name(), Class::Unit)]
}

fn qg(a: &NumLit, u: &U, glued: bool) -> Vec<Tok> {
    vec![Tok::num(a.clone()), Tok::word(&u.source_name(), Class::Unit).sp(if glued { 0 } else { 1 })]
}

pub fn case_line(c: &Case) -> Line {
    let mut l = Line::default();
    let mut push = |v: Vec<Tok>| {
        for t in v {
            l.push(t);
        }
    };
    match &c.shape {
        Shape::Convert(a, u1, conn, u2) => {
            push(qg(a, u1, c.glue & 1 != 0));
            push(vec![Tok::word(CONN[*conn as usize % 4], Class::Conn), Tok::word(&u2.target_name(), Class::Unit)]);
        }
        Shape::Chain(a, u1, u2, u3) => {
            push(q(a, u1));
            push(vec![Tok::word("to", Class::Conn), Tok::word(&u2.target_name(), Class::Unit), Tok::word("to", Class::Conn), Tok::word(&u3.target_name(), Class::Unit)]);
        }
        Shape::AddSub(a, u1, plus, b, u2) => {
            push(qg(a, u1, c.glue & 1 != 0));
            push(vec![Tok::op(if *plus { '+' } else { '-' })]);
            push(qg(b, u2, c.glue & 2 != 0));
        }
        Shape::Scale(a, u1, mul, n) => {
            push(q(a, u1));
            push(vec![Tok::op(if *mul { '*' } else { '/' }), Tok::num(n.clone())]);
        }
        Shape::Ratio(a, u1, b, u2) => {
            push(qg(a, u1, c.glue & 1 != 0));
            push(vec![Tok::op('/')]);
            push(qg(b, u2, c.glue & 2 != 0));
        }
        Shape::NameMap(u) => push(q(&NumLit::new(1.0), u)),
    }
    l
}

fn conv(a: f64, from: &U, to: &U) -> f64 {
    a * from.si().1 / to.si().1
}

fn div0(a: f64, b: f64) -> f64 {
    let r = a / b;
    if r.is_finite() {
        r
    } else {
        0.0
    }
}

pub struct Units;

fn expect_unit(acc: &mut Acc, slot: &Slot, amount: f64, u: &U, scale: f64, what: &str) {
    let info = u.info();
    match slot {
        Slot::Ok { v: V::Unit(a, g, i), .. } => {
            if *g != info.group || *i != info.index {
                acc.fail(format!("{}: expected a quantity in {}#{} got {}#{} ({})", what, info.group, info.index, g, i, a));
            } else if !close_scaled(*a, amount, scale) {
                acc.fail(format!("{}: expected {} got {} ({}#{})", what, amount, a, g, i));
            }
        }
        other => acc.fail(format!("{}: expected {} {}#{} got {}", what, amount, info.group, info.index, other.brief())),
    }
}

impl Prop for Units {
    type Case = Case;
    fn name(&self) -> &'static str {
        "units"
    }
    fn check(&self, w: &mut Worker, c: &Case) -> Verdict {
        let (dec, thou) = READ_SEPS[c.seps % 4];
        let cfg = Cfg::seps(dec, thou);
        let line = case_line(c).render(dec, thou);
        let rendered = format!("[{}] {}", cfg.label(), line);
        let slot = match w.eval1(&cfg, "en", &line) {
            Ok(s) => s,
            Err(e) => return Verdict::fail(e, rendered),
        };
        let mut acc = Acc::new();
        let mut nt = false;
        let mut classes: Vec<&'static str> = vec![];
        match &c.shape {
            Shape::NameMap(u) => {
                let name = u.source_name();
                let by_name = si_by_name(&name);
                let by_index = u.si();
                match by_name {
                    None => acc.fail(format!("unit name {:?} has no definition in the harness table", name)),
                    Some((k, f)) => {
                        if k != by_index.0 || !close(f, by_index.1) {
                            acc.fail(format!("the configuration maps the name {:?} to {}#{}, which is not the unit of that name", name, u.info().group, u.info().index));
                        }
                    }
                }
                expect_unit(&mut acc, &slot, 1.0, u, 0.0, "literal");
                for t in &u.info().names {
                    if let Some((k, f)) = si_by_name(t) {
                        if k != by_index.0 || !close(f, by_index.1) {
                            acc.fail(format!("target name {:?} is configured for {}#{}", t, u.info().group, u.info().index));
                        }
                    } else {
                        acc.fail(format!("target name {:?} has no definition in the harness table", t));
                    }
                }
                classes.push("name-map");
            }
            Shape::Convert(a, u1, _, u2) => {
                let (k1, _) = u1.si();
                let (k2, _) = u2.si();
                if k1 == k2 {
                    expect_unit(&mut acc, &slot, conv(a.value(), u1, u2), u2, 0.0, "conversion");
                    nt = u1.info().group != u2.info().group || u1.info().index != u2.info().index;
                    classes.push("conversion");
                    if u1.info().group != u2.info().group {
                        classes.push("crosses-metric-imperial-bridge");
                    }
                    if u1.info().group == u2.info().group {
                        classes.push(if u1.info().index < u2.info().index { "direction-up" } else { "direction-down" });
                    }
                    // linearity on the real code: conv(3a) = 3 conv(a)
                    if acc.ok() {
                        let mut c3 = c.clone();
                        if let Shape::Convert(a3, ..) = &mut c3.shape {
                            a3.v *= 3.0;
                        }
                        let line3 = case_line(&c3).render(dec, thou);
                        match (w.eval1(&cfg, "en", &line3), &slot) {
                            (Ok(Slot::Ok { v: V::Unit(x3, ..), .. }), Slot::Ok { v: V::Unit(x1, ..), .. }) => {
                                if !close(x3, 3.0 * x1) {
                                    acc.fail(format!("not linear: {:?} gives {} but {:?} gives {}", line, x1, line3, x3));
                                }
                            }
                            (Ok(o), _) => acc.fail(format!("linearity probe {:?} gives {}", line3, o.brief())),
                            (Err(e), _) => acc.fail(e),
                        }
                    }
                } else {
                    // different kinds: never converted (unchanged source or an error are both fine)
                    classes.push("different-kinds");
                    nt = true;
                    if let Slot::Ok { v: V::Unit(_, g, i), .. } = &slot {
                        if let Some((kk, _)) = si(g, *i) {
                            if kk != k1 {
                                acc.fail(format!("a {:?} quantity was converted into {}#{} ({:?})", k1, g, i, kk));
                            }
                        }
                    }
                }
            }
            Shape::Chain(a, u1, u2, u3) => {
                // all three of one kind by construction
                expect_unit(&mut acc, &slot, conv(a.value(), u1, u3), u3, 0.0, "chain");
                classes.push("chain");
                nt = true;
                // transitivity on the real code: U1->U2->U3 equals U1->U3
                if acc.ok() {
                    let direct = Case { shape: Shape::Convert(a.clone(), u1.clone(), 0, u3.clone()), seps: c.seps, glue: 0, via: 0 };
                    let dl = case_line(&direct).render(dec, thou);
                    match (w.eval1(&cfg, "en", &dl), &slot) {
                        (Ok(Slot::Ok { v: V::Unit(d, ..), .. }), Slot::Ok { v: V::Unit(x, ..), .. }) => {
                            if !close(*x, d) {
                                acc.fail(format!("not transitive: {:?} gives {} but {:?} gives {}", line, x, dl, d));
                            }
                        }
                        (Ok(o), _) => acc.fail(format!("direct conversion {:?} gives {}", dl, o.brief())),
                        (Err(e), _) => acc.fail(e),
                    }
                }
                if u1 == u3 || (u1.info().group == u3.info().group && u1.info().index == u3.info().index) {
                    classes.push("round-trip-inverse");
                }
            }
            Shape::AddSub(a, u1, plus, b, u2) => {
                let r = conv(b.value(), u2, u1);
                let e = if *plus { a.value() + r } else { a.value() - r };
                expect_unit(&mut acc, &slot, e, u1, a.value().abs().max(r.abs()), "sum");
                classes.push("add-sub");
                nt = u1.info().index != u2.info().index || u1.info().group != u2.info().group;
            }
            Shape::Scale(a, u1, mul, n) => {
                let e = if *mul { a.value() * n.value() } else { div0(a.value(), n.value()) };
                expect_unit(&mut acc, &slot, e, u1, 0.0, "scaling");
                classes.push("scale");
                nt = true;
            }
            Shape::Ratio(a, u1, b, u2) => {
                let e = div0(a.value(), conv(b.value(), u2, u1));
                match &slot {
                    Slot::Ok { v: V::Num(x, NT::Decimal), .. } => {
                        if !close(*x, e) {
                            acc.fail(format!("ratio: expected {} got {}", e, x));
                        }
                    }
                    other => acc.fail(format!("ratio: expected the plain number {} got {}", e, other.brief())),
                }
                classes.push("ratio");
                nt = true;
            }
        }
        // metamorphic: a quantity held in a name bound on an earlier line is the quantity
        let mut via_checked = false;
        if acc.ok() && c.via != 0 && matches!(slot, Slot::Ok { .. }) {
            let whole = case_line(c);
            let range = match (&c.shape, c.via) {
                (Shape::NameMap(_), _) => None,
                // 3: only the AMOUNT is held in the name (`load = 12` / `load in to cm`); needs the blank before the unit
                (_, 3) if c.glue & 1 == 0 => Some((0, 1)),
                (_, 3) => None,
                (_, 1) => Some((0, 2)),
                (Shape::AddSub(..), _) | (Shape::Ratio(..), _) => Some((3, 5)),
                _ => Some((0, 2)),
            };
            if let Some((from, to)) = range {
                let text2 = whole.via_variable(from, to, if c.via == 1 { "load" } else { "net weight" }, dec, thou);
                match w.eval(&cfg, "en", &text2) {
                    Ok(o) if o.slots.len() == 2 => {
                        via_checked = true;
                        if !o.slots[1].same(&slot) {
                            acc.fail(format!("{:?} gives {} but with the quantity held in a name ({:?}) it gives {}", line, slot.brief(), text2, o.slots[1].brief()));
                        }
                    }
                    Ok(o) => acc.fail(format!("{} slots for the two lines {:?}", o.slots.len(), text2)),
                    Err(p) => acc.fail(format!("{:?}: panic at {}: {}", text2, p.site, p.message)),
                }
            }
        }
        let mut v = acc.finish(rendered).nt(nt).class_if(c.seps != 0, "non-default-separators").class_if(via_checked, "quantity-also-via-a-variable");
        for cl in classes {
            v = v.class(cl);
        }
        v
    }
}

// ---- strategies --------------------------------------------------------------------------------

// ---- a conversion inside arithmetic, the converted operand possibly held in a variable ------------------

/// `a U1 +- b U2 to U3` (the conversion phrase binds to the quantity next to it, then the sum is taken in U1), and the same
/// line with `b U2` held in a variable bound on an earlier line: both give a +- b·f(U2)/f(U1) in U1
#[derive(Clone, Debug, Serialize, Deserialize)]
pub struct SumConv {
    pub a: NumLit,
    pub u1: U,
    pub plus: bool,
    pub b: NumLit,
    pub u2: U,
    pub u3: U,
    pub via_var: bool,
}

pub struct SumWithConversion;

impl Prop for SumWithConversion {
    type Case = SumConv;
    fn name(&self) -> &'static str {
        "conversion-inside-a-sum"
    }
    fn check(&self, w: &mut Worker, c: &SumConv) -> Verdict {
        let cfg = Cfg::default();
        let q2 = format!("{} {}", c.b.render(",", "."), c.u2.source_name());
        let head = format!("{} {} {}", c.a.render(",", "."), c.u1.source_name(), if c.plus { '+' } else { '-' });
        let text = if c.via_var { format!("b = {}\n{} b to {}", q2, head, c.u3.target_name()) } else { format!("{} {} to {}", head, q2, c.u3.target_name()) };
        let rendered = text.replace('\n', " ; ");
        let out = match w.eval(&cfg, "en", &text) {
            Ok(o) => o,
            Err(p) => return Verdict::fail(format!("panic at {}: {}", p.site, p.message), rendered),
        };
        let r = conv(c.b.value(), &c.u2, &c.u1);
        let exp = if c.plus { c.a.value() + r } else { c.a.value() - r };
        let scale = c.a.value().abs().max(r.abs());
        let mut acc = Acc::new();
        let info = c.u1.info();
        match out.slots.last() {
            Some(Slot::Ok { v: V::Unit(x, g, i), .. }) if *g == info.group && *i == info.index && crate::common::close_scaled(*x, exp, scale) => {}
            other => acc.fail(format!("expected {} {}#{} got {:?}", exp, info.group, info.index, other.map(|s| s.brief()))),
        }
        acc.finish(rendered).nt(c.u2.unit != c.u1.unit).class("conversion-inside-a-sum").class_if(c.via_var, "converted-operand-held-in-a-variable")
    }
}

pub fn sumconv_strategy() -> impl Strategy<Value = SumConv> {
    let small = || (1u32..=5000, 0u8..3).prop_map(|(v, d)| NumLit::new(v as f64 / 10f64.powi(d as i32)));
    (small(), unit_strategy(), any::<bool>(), small(), any::<u32>(), any::<u32>(), any::<u32>(), any::<u32>(), any::<bool>()).prop_map(|(a, u1, plus, b, p2, n2, p3, n3, via_var)| {
        let u2 = same_kind(&u1, p2, n2);
        let u3 = same_kind(&u1, p3, n3);
        SumConv { a, u1, plus, b, u2, u3, via_var }
    })
}

pub fn amount_strategy() -> impl Strategy<Value = NumLit> {
    let v = prop_oneof![
        4 => (1u32..=1000).prop_map(|v| v as f64),
        3 => (1u32..=99_999_999).prop_map(|v| v as f64 / 1000.0),
        2 => (1u64..=999_999_999_999u64).prop_map(|v| v as f64),
        1 => prop_oneof![Just(0.0), Just(0.000001), Just(1e12), Just(0.5), Just(2.54), Just(1.0)],
    ];
    (v, prop_oneof![6 => Just(0u8), 1 => Just(1u8)], any::<bool>()).prop_map(|(v, sign, group)| NumLit { v, sign, group })
}

pub fn unit_strategy() -> impl Strategy<Value = U> {
    (0..vocab().units.len(), any::<u32>()).prop_map(|(unit, name)| U { unit, name })
}

/// a unit of the same kind as `u`
fn same_kind(u: &U, pick: u32, name: u32) -> U {
    let k = u.si().0;
    let idxs: Vec<usize> = (0..vocab().units.len()).filter(|i| U { unit: *i, name: 0 }.si().0 == k).collect();
    U { unit: idxs[monotone_index(pick, idxs.len())], name }
}

pub fn shape_strategy() -> impl Strategy<Value = Shape> {
    prop_oneof![
        5 => (amount_strategy(), unit_strategy(), 0u8..4, any::<u32>(), any::<u32>()).prop_map(|(a, u1, c, p, n)| { let u2 = same_kind(&u1, p, n); Shape::Convert(a, u1, c, u2) }),
        1 => (amount_strategy(), unit_strategy(), 0u8..4, unit_strategy()).prop_map(|(a, u1, c, u2)| Shape::Convert(a, u1, c, u2)),
        3 => (amount_strategy(), unit_strategy(), any::<u32>(), any::<u32>(), any::<u32>(), any::<u32>(), any::<bool>()).prop_map(|(a, u1, p2, n2, p3, n3, back)| {
            let u2 = same_kind(&u1, p2, n2);
            let u3 = if back { U { unit: u1.unit, name: n3 } } else { same_kind(&u1, p3, n3) };
            Shape::Chain(a, u1, u2, u3)
        }),
        3 => (amount_strategy(), unit_strategy(), any::<bool>(), amount_strategy(), any::<u32>(), any::<u32>()).prop_map(|(a, u1, p, b, pk, n)| { let u2 = same_kind(&u1, pk, n); Shape::AddSub(a, u1, p, b, u2) }),
        2 => (amount_strategy(), unit_strategy(), any::<bool>(), prop_oneof![3 => (0u32..=1000).prop_map(|v| v as f64), 2 => (1u32..=99_999).prop_map(|v| v as f64 / 100.0)]).prop_map(|(a, u1, m, n)| Shape::Scale(a, u1, m, NumLit { v: n, sign: 0, group: false })),
        2 => (amount_strategy(), unit_strategy(), amount_strategy(), any::<u32>(), any::<u32>()).prop_map(|(a, u1, b, pk, n)| { let u2 = same_kind(&u1, pk, n); Shape::Ratio(a, u1, b, u2) }),
    ]
}

pub fn case_strategy() -> impl Strategy<Value = Case> {
    (shape_strategy(), prop_oneof![2 => Just(0usize), 2 => 1usize..4], prop_oneof![3 => Just(0u8), 1 => 1u8..4], prop_oneof![3 => Just(0u8), 1 => 1u8..4]).prop_map(|(shape, seps, glue, via)| Case { shape, seps, glue, via })
}

/// all ordered pairs of units x amounts x separator conventions (+ the name map)
pub fn pair_table(amounts: &[f64], seps: &[usize]) -> Vec<Case> {
    let n = vocab().units.len();
    let mut out = vec![];
    let mut k = 0u32;
    for i in 0..n {
        let ui = &vocab().units[i];
        for sn in 0..ui.parse_names.len() {
            let name = ((sn as u64 * (1u64 << 32)) / ui.parse_names.len() as u64 + 1) as u32;
            out.push(Case { shape: Shape::NameMap(U { unit: i, name }), seps: 0, glue: 0, via: 0 });
        }
        for j in 0..n {
            for a in amounts {
                for s in seps {
                    k = k.wrapping_add(0x3333_3333);
                    out.push(Case { shape: Shape::Convert(NumLit::new(*a), U { unit: i, name: k }, (k >> 30) as u8, U { unit: j, name: k.rotate_left(7) }), seps: *s, glue: ((k >> 11) & 1) as u8, via: 0 });
                }
            }
        }
    }
    out
}

pub fn run(ctx: &Ctx) {
    ctx.rule("ALL ordered pairs of the 33 configured units (within and across the metric/imperial families, and across kinds) enumerated x amounts x separator conventions, every configured spelling (69 names) checked against a by-name definition table; generated: a U1 to|in|into|as U2, chains U1->U2->U3 (incl. back to U1), a U1 +- b U2, a U1 * n, a U1 / n, a U1 / b U2, amounts +-[1e-6, 1e12] with fractions and thousands groups, 4 separator conventions; a conversion applied to a sum: 'a U1 +- b U2 to U3', also with b U2 held in a name bound on an earlier line (expected: the SUM converted); metamorphic step (a quarter of the cases): the first or second quantity - or only the amount of the first - also held in a name bound on an earlier line; oracle: hard-coded SI table in the harness (never read from config.json): same kind -> amount*f(U1)/f(U2) in unit U2 (family + index read from the AST), different kinds -> the result is not a quantity of another kind; relations on the real code: linearity conv(3a)=3conv(a), transitivity U1->U2->U3 = U1->U3, inverse U1->U2->U1 = a; non-trivial = U1 != U2 (or a different-kind pair, arithmetic between different units)");
    ctx.assume("target unit names are written exactly as configured (the target lookup is case-sensitive); tolerance 1e-9 relative (the library multiplies step by step along the chain)");
    match ctx.tier {
        crate::engine::Tier::Quick => ctx.run_table(&Units, "all-unit-pairs", pair_table(&[1.0, 2.5], &[0]), true),
        crate::engine::Tier::Thorough => ctx.run_table(&Units, "all-unit-pairs", pair_table(&[1.0, 2.5, 0.001, 1234.5678, 1e6, -3.0, 0.0, 7.0, 1e-6, 99999.5], &[0, 1, 2, 3]), true),
    }
    ctx.run_generated(&Units, ctx.tier.pick(40_000, 400_000), case_strategy);
    ctx.run_generated(&SumWithConversion, ctx.tier.pick(15_000, 150_000), sumconv_strategy);
}

pub fn replay(w: &mut Worker, sub: &str, case: &serde_json::Value) -> Option<Verdict> {
    match sub {
        "units" => crate::engine::replay_case(&Units, w, case),
        "conversion-inside-a-sum" => crate::engine::replay_case(&SumWithConversion, w, case),
        _ => None,
    }
}
