//! C09 — dates are calendar dates, date arithmetic is calendar arithmetic.

use crate::calendar::{ce_days, civil_from_ce, days_in_month, valid_ymd};
use crate::common::{Cfg, Slot, V};
use crate::engine::{monotone_index, Acc, Ctx, Prop, Verdict, Worker};
use crate::lines::{recase, Class, Line, NumLit, Tok};
use crate::vocab::vocab;
use proptest::prelude::*;
use serde::{Deserialize, Serialize};

#[derive(Clone, Debug, PartialEq, Serialize, Deserialize)]
pub enum Spell {
    /// d/m/y: (leading zeros, blanks around the slashes)
    Slash(bool, bool),
    /// d Mon y: (name pick, case pattern, case bits)
    DMonY(u32, u8, u32),
    /// Mon d, y / Mon d y (English only): (name pick, case, bits, comma)
    MonDY(u32, u8, u32, bool),
    /// d Mon  (current year)
    DMon(u32, u8, u32),
}

#[derive(Clone, Debug, PartialEq, Serialize, Deserialize)]
pub struct DateLit {
    /// None = the current year (resolved when the case is checked)
    pub y: Option<i32>,
    pub m: u32,
    pub d: u32,
    pub spell: Spell,
}

pub fn current_year() -> i32 {
    use chrono::Datelike;
    chrono::Utc::now().date_naive().year()
}

pub fn today_ce() -> i64 {
    use chrono::Datelike;
    chrono::Utc::now().date_naive().num_days_from_ce() as i64
}

impl DateLit {
    pub fn year(&self) -> i64 {
        self.y.unwrap_or_else(current_year) as i64
    }
    pub fn normalise(mut self, lang: &str) -> DateLit {
        // the year-less spelling means the current year; month-first exists in English only
        match self.spell.clone() {
            Spell::DMon(..) => self.y = None,
            Spell::MonDY(p, c, b, _) if lang != "en" => self.spell = Spell::DMonY(p, c, b),
            _ => {}
        }
        if self.y.is_none() && !matches!(self.spell, Spell::DMon(..)) {
            // spelled with an explicit year: write the current year out
        }
        self
    }
    pub fn toks(&self, lang: &str) -> Vec<Tok> {
        let y = self.year();
        let month_word = |pick: u32, cp: u8, bits: u32| {
            let names = vocab().month_names(lang, self.m);
            let n = if names.is_empty() { format!("m{}", self.m) } else { names[monotone_index(pick, names.len())].clone() };
            Tok::word(&recase(&n, cp, bits), Class::Month)
        };
        let num = |v: i64| Tok::num(NumLit { v: v as f64, sign: 0, group: false });
        match &self.spell {
            Spell::Slash(lead, spaced) => {
                let sp = if *spaced { 1 } else { 0 };
                let d = if *lead { Tok { pre: format!("{:02}", self.d), num: None, post: String::new(), class: Class::Number, space: 1 } } else { num(self.d as i64) };
                let m = if *lead { Tok { pre: format!("{:02}", self.m), num: None, post: String::new(), class: Class::Number, space: sp } } else { num(self.m as i64).sp(sp) };
                vec![d, Tok::op('/').sp(sp), m, Tok::op('/').sp(sp), num(y).sp(sp)]
            }
            Spell::DMonY(p, c, b) => vec![num(self.d as i64), month_word(*p, *c, *b), num(y)],
            Spell::MonDY(p, c, b, comma) => {
                let mut d = num(self.d as i64);
                // the comma glued to the day, or (one case in four) standing apart: `June 10 , 2020`, `June 10 ,2020`
                if *comma && *b % 4 == 3 {
                    return vec![month_word(*p, *c, *b), d, Tok::op(','), num(y).sp(((*b >> 2) & 1) as u8)];
                }
                if *comma {
                    d.post = ",".into();
                }
                vec![month_word(*p, *c, *b), d, num(y)]
            }
            Spell::DMon(p, c, b) => vec![num(self.d as i64), month_word(*p, *c, *b)],
        }
    }
}

#[derive(Clone, Copy, Debug, PartialEq, Serialize, Deserialize)]
pub enum Unit {
    Days,
    Weeks,
    Months,
    Years,
}

#[derive(Clone, Debug, Serialize, Deserialize)]
pub enum Shape {
    Literal(DateLit),
    /// a date that does not exist (kind: 0 day 0, 1 day past the end of the month, 2 month 0, 3 month 13)
    Impossible(DateLit),
    /// date, plus?, count, unit, unit spelling, extra days (only with months/years, 0..29)
    Arith(DateLit, bool, u32, Unit, u8, Option<u8>),
    Diff(DateLit, DateLit),
    /// constant 0 today 1 tomorrow 2 yesterday, optional (plus?, days)
    Const(u8, Option<(bool, u32)>),
    ConstDiff(u8, u8),
}

#[derive(Clone, Debug, Serialize, Deserialize)]
pub struct Case {
    pub lang: String,
    pub shape: Shape,
    /// default zone set through set_timezone (None = the UTC default)
    #[serde(default)]
    pub tz: Option<String>,
    /// separator convention in force (index into READ_SEPS; 0 = the default): dates contain no separators,
    /// so how they are read must not depend on it
    #[serde(default)]
    pub seps: u8,
    /// D +- N unit: write the sign glued to the count (`10 june 2020 -3 weeks`); only for dates written with their year
    #[serde(default)]
    pub glue: bool,
    /// also evaluate the line with its duration (D +- N unit ...) or its first date (A to B) held in a variable bound
    /// on an earlier line: exactly the same result
    #[serde(default)]
    pub via_var: bool,
}

/// default zones under which dates are read and computed (calendar dates do not depend on the zone)
pub const ZONES: [&str; 8] = ["GMT+14", "GMT-12", "EST", "CET", "IST", "NPT", "GMT+13:45", "GMT-9:30"];

pub fn unit_word(lang: &str, u: Unit, sp: u8) -> &'static str {
    let idx = match u {
        Unit::Days => 3,
        Unit::Weeks => 4,
        Unit::Months => 5,
        Unit::Years => 6,
    };
    let s = crate::c10::spellings(lang, idx);
    s[sp as usize % s.len()]
}

pub fn const_word(lang: &str, which: u8) -> &'static str {
    match (lang, which % 3) {
        ("tr", 0) => "bugün",
        ("tr", 1) => "yarın",
        ("tr", _) => "dün",
        (_, 0) => "today",
        (_, 1) => "tomorrow",
        _ => "yesterday",
    }
}

pub fn case_line(c: &Case) -> Line {
    let lang = c.lang.as_str();
    let mut l = Line::default();
    let push_all = |l: &mut Line, v: Vec<Tok>| {
        for t in v {
            l.push(t);
        }
    };
    match &c.shape {
        Shape::Literal(d) | Shape::Impossible(d) => push_all(&mut l, d.toks(lang)),
        Shape::Arith(d, plus, n, u, sp, extra) => {
            push_all(&mut l, d.toks(lang));
            l.push(Tok::op(if *plus { '+' } else { '-' }));
            // a glued sign makes the count a negative LITERAL: the line is the date followed by a negative duration, which
            // is added. Asserted for spans below 30 days only: beyond that the known findings F80/F81 (a duration forgets
            // its unit) apply in a sign-dependent way that is not modelled.
            let days = match u {
                Unit::Days => *n as u64,
                Unit::Weeks => *n as u64 * 7,
                _ => u64::MAX,
            };
            // (years below 32 are left out: `jan 31 -1` also reads as the month-first date `Mon day year`)
            let glued = c.glue && d.y.map_or(false, |y| y >= 32) && days < 30 && *n > 0 && extra.is_none();
            l.push(Tok::num(NumLit { v: *n as f64, sign: 0, group: false }).sp(if glued { 0 } else { 1 }));
            l.push(Tok::word(unit_word(lang, *u, *sp), Class::DurWord));
            if let Some(e) = extra {
                l.push(Tok::num(NumLit { v: *e as f64, sign: 0, group: false }));
                l.push(Tok::word(unit_word(lang, Unit::Days, *sp), Class::DurWord));
            }
        }
        Shape::Diff(a, b) => {
            push_all(&mut l, a.toks(lang));
            if lang == "tr" {
                push_all(&mut l, b.toks(lang));
                l.push(Tok::word("arası", Class::Keyword));
            } else {
                l.push(Tok::word("to", Class::Conn));
                push_all(&mut l, b.toks(lang));
            }
        }
        Shape::Const(w, op) => {
            l.push(Tok::word(const_word(lang, *w), Class::Keyword));
            if let Some((plus, n)) = op {
                l.push(Tok::op(if *plus { '+' } else { '-' }));
                l.push(Tok::num(NumLit { v: *n as f64, sign: 0, group: false }));
                l.push(Tok::word(unit_word(lang, Unit::Days, (*n % 2) as u8), Class::DurWord));
            }
        }
        Shape::ConstDiff(a, b) => {
            l.push(Tok::word(const_word(lang, *a), Class::Keyword));
            if lang == "tr" {
                l.push(Tok::word(const_word(lang, *b), Class::Keyword));
                l.push(Tok::word("arası", Class::Keyword));
            } else {
                l.push(Tok::word("to", Class::Conn));
                l.push(Tok::word(const_word(lang, *b), Class::Keyword));
            }
        }
    }
    l
}

/// move (y, m) by `months` calendar months
pub fn add_months(y: i64, m: i64, months: i64) -> (i64, i64) {
    let idx = y * 12 + (m - 1) + months;
    (idx.div_euclid(12), idx.rem_euclid(12) + 1)
}

#[derive(Debug, PartialEq)]
pub enum Expect {
    /// CE day number
    Date(i64),
    /// must not be a date
    NotADate,
    /// seconds
    Duration(i64),
    /// the statement does not define the result (day missing in the target month, out of range)
    Undefined(&'static str),
}

fn const_offset(which: u8) -> i64 {
    match which % 3 {
        0 => 0,
        1 => 1,
        _ => -1,
    }
}

pub fn expected(c: &Case) -> Expect {
    match &c.shape {
        Shape::Literal(d) => Expect::Date(ce_days(d.year(), d.m as i64, d.d as i64)),
        Shape::Impossible(_) => Expect::NotADate,
        Shape::Arith(d, plus, n, u, _, extra) => {
            let sign = if *plus { 1 } else { -1 };
            let (y, m, dd) = (d.year(), d.m as i64, d.d as i64);
            let res = match u {
                Unit::Days => ce_days(y, m, dd) + sign * (*n as i64),
                Unit::Weeks => ce_days(y, m, dd) + sign * 7 * (*n as i64),
                Unit::Months | Unit::Years => {
                    let months = if *u == Unit::Months { *n as i64 } else { 12 * (*n as i64) };
                    let (ty, tm) = add_months(y, m, sign * months);
                    if !valid_ymd(ty, tm, dd) {
                        return Expect::Undefined("day does not exist in the target month");
                    }
                    ce_days(ty, tm, dd) + sign * extra.unwrap_or(0) as i64
                }
            };
            let (ry, _, _) = civil_from_ce(res);
            if !(1..=9999).contains(&ry) {
                return Expect::Undefined("result outside years 1..9999");
            }
            Expect::Date(res)
        }
        Shape::Diff(a, b) => {
            let da = ce_days(a.year(), a.m as i64, a.d as i64);
            let db = ce_days(b.year(), b.m as i64, b.d as i64);
            Expect::Duration((da - db).abs() * 86400)
        }
        Shape::Const(w, op) => {
            let base = today_ce() + const_offset(*w);
            Expect::Date(match op {
                Some((plus, n)) => base + if *plus { *n as i64 } else { -(*n as i64) },
                None => base,
            })
        }
        Shape::ConstDiff(a, b) => Expect::Duration((const_offset(*a) - const_offset(*b)).abs() * 86400),
    }
}

/// What the library's "decompose the duration into 365-day years and 30-day months" algorithm
/// yields (the failure shape of known findings F80 / F81). None = it reports an error.
pub fn defect_model(y: i64, m: i64, d: i64, plus: bool, total_days: i64) -> Option<i64> {
    let (mut y, mut m) = (y, m);
    let mut days = total_days;
    let ny = days / 365;
    if ny > 0 {
        y = if plus { y + ny } else { y - ny };
        if !valid_ymd(y, m, d) {
            return None;
        }
        days -= 365 * ny;
    }
    let nm = days / 30;
    if nm > 0 {
        if plus {
            let total = m - 1 + nm;
            y += total / 12;
            m = total % 12 + 1;
        } else {
            y -= nm / 12;
            m -= nm % 12;
            if m < 0 {
                m += 12; // the year is not borrowed
            }
        }
        if !valid_ymd(y, m, d) {
            return None;
        }
        days -= 30 * nm;
    }
    let base = ce_days(y, m, d);
    Some(if plus { base + days } else { base - days })
}

/// seconds the library assigns to `n unit [+ extra days]`
fn library_days(n: u32, u: Unit, extra: Option<u8>) -> i64 {
    let n = n as i64;
    (match u {
        Unit::Days => n,
        Unit::Weeks => 7 * n,
        Unit::Months => 365 * (n / 12) + 30 * (n % 12),
        Unit::Years => 365 * n,
    }) + extra.unwrap_or(0) as i64
}

fn classify_known(c: &Case, slot: &Slot) -> Option<&'static str> {
    if let Shape::Arith(d, plus, n, u, _, extra) = &c.shape {
        let total = library_days(*n, *u, *extra);
        let model = defect_model(d.year(), d.m as i64, d.d as i64, *plus, total);
        let observed_matches_model = match (slot, model) {
            (Slot::Ok { v: V::Date(ce, _, _), .. }, Some(m)) => *ce as i64 == m,
            (Slot::Err(e), None) => e == "Unknown calculation",
            _ => false,
        };
        if !observed_matches_model {
            return None;
        }
        // F82: years are applied before months, so 29 Feb + N months fails on a non-leap intermediate year
        if matches!(u, Unit::Months | Unit::Years) && d.m == 2 && d.d == 29 && model.is_none() && *n >= 12 {
            return Some("F82");
        }
        return match u {
            // F81: a day/week count of 30 days or more is applied as calendar months/years + remainder
            Unit::Days | Unit::Weeks if total >= 30 => Some("F81"),
            // F80: subtracting months across a year boundary does not borrow the year (pinned by tests)
            Unit::Months | Unit::Years if !*plus && (*n as i64 % 12) >= d.m as i64 && *u == Unit::Months => Some("F80"),
            _ => None,
        };
    }
    None
}

pub struct Dates;

impl Prop for Dates {
    type Case = Case;
    fn name(&self) -> &'static str {
        "dates"
    }
    fn check(&self, w: &mut Worker, c: &Case) -> Verdict {
        let (dec, thou) = crate::common::READ_SEPS[c.seps as usize % 4];
        let cfg = match &c.tz {
            Some(z) => Cfg::seps(dec, thou).with_tz(z),
            None => Cfg::seps(dec, thou),
        };
        let line = case_line(c).render(dec, thou);
        let rendered = match &c.tz {
            Some(z) => format!("[{} default zone {}{}] {}", c.lang, z, if c.seps % 4 != 0 { format!(" dec={:?} thou={:?}", dec, thou) } else { String::new() }, line),
            None => format!("[{}{}] {}", c.lang, if c.seps % 4 != 0 { format!(" dec={:?} thou={:?}", dec, thou) } else { String::new() }, line),
        };
        let cy0 = current_year();
        let t0 = today_ce();
        let exp = expected(c);
        let slot = match w.eval1(&cfg, &c.lang, &line) {
            Ok(s) => s,
            Err(e) => return Verdict::fail(e, rendered),
        };
        if today_ce() != t0 || current_year() != cy0 {
            return Verdict::skip("date changed during the case", rendered);
        }
        let mut acc = Acc::new();
        // metamorphic: the duration / the first date held in a variable gives exactly the same result as the literal line
        let mut via_checked = false;
        if c.via_var {
            let whole = case_line(c);
            let text2: Option<String> = match &c.shape {
                Shape::Arith(d, plus, n, u, sp, extra) if !c.glue => {
                    // the whole duration held in a name (`b = 3 days` / `D + b`), or - every other count - only the
                    // count (`b = 3` / `D + b days`)
                    let count_only = *n % 2 == 1;
                    let mut def = Line::default();
                    def.push(Tok::word("b", Class::Var));
                    def.push(Tok::op('='));
                    def.push(Tok::num(NumLit { v: *n as f64, sign: 0, group: false }));
                    if !count_only {
                        def.push(Tok::word(unit_word(&c.lang, *u, *sp), Class::DurWord));
                    }
                    let mut l = Line::default();
                    for t in d.toks(&c.lang) {
                        l.push(t);
                    }
                    l.push(Tok::op(if *plus { '+' } else { '-' }));
                    l.push(Tok::word("b", Class::Var));
                    if count_only {
                        l.push(Tok::word(unit_word(&c.lang, *u, *sp), Class::DurWord));
                    }
                    if let Some(e) = extra {
                        l.push(Tok::num(NumLit { v: *e as f64, sign: 0, group: false }));
                        l.push(Tok::word(unit_word(&c.lang, Unit::Days, *sp), Class::DurWord));
                    }
                    Some(format!("{}\n{}", def.render(dec, thou), l.render(dec, thou)))
                }
                Shape::Diff(a, _) => {
                    let n_a = a.toks(&c.lang).len();
                    let mut def = Line::default();
                    def.push(Tok::word("a", Class::Var));
                    def.push(Tok::op('='));
                    for t in a.toks(&c.lang) {
                        def.push(t);
                    }
                    let mut l = Line::default();
                    l.push(Tok::word("a", Class::Var));
                    for t in whole.toks.iter().skip(n_a) {
                        l.push(t.clone());
                    }
                    Some(format!("{}\n{}", def.render(dec, thou), l.render(dec, thou)))
                }
                _ => None,
            };
            if let Some(t2) = text2 {
                match w.eval(&cfg, &c.lang, &t2) {
                    Ok(o) if o.slots.len() == 2 => {
                        via_checked = true;
                        if !o.slots[1].same(&slot) {
                            acc.fail(format!("{:?} gives {} but with the operand held in a variable ({:?}) it gives {}", line, slot.brief(), t2, o.slots[1].brief()));
                        }
                    }
                    Ok(o) => acc.fail(format!("{} slots for two lines", o.slots.len())),
                    Err(p) => acc.fail(format!("panic at {}: {}", p.site, p.message)),
                }
            }
        }
        let mut crossing: Vec<&'static str> = vec![];
        match (&exp, &slot) {
            (Expect::Undefined(r), _) => return Verdict::skip(r, rendered),
            (Expect::NotADate, Slot::Ok { v: V::Date(ce, ..), .. }) => acc.fail(format!("an impossible date was accepted as the date {:?}", civil_from_ce(*ce as i64))),
            (Expect::NotADate, _) => {}
            // under a non-UTC default zone the statement does not say whose calendar day "today" is: the
            // UTC day and the zone's day (at most one day apart) are both accepted for a bare constant,
            // consecutiveness is asserted by the difference cases
            (Expect::Date(e), Slot::Ok { v: V::Date(ce, _, _), .. }) if c.tz.is_some() && matches!(c.shape, Shape::Const(..)) && (*ce as i64 - *e).abs() <= 1 => {}
            (Expect::Date(e), Slot::Ok { v: V::Date(ce, _, _), out }) => {
                if *ce as i64 != *e {
                    acc.fail_kf(format!("expected {:?} got {:?}", civil_from_ce(*e), civil_from_ce(*ce as i64)), classify_known(c, &slot));
                } else if let Err(m) = check_output(&c.lang, out, *e, cy0 as i64) {
                    acc.fail(m);
                }
            }
            (Expect::Date(e), other) => acc.fail_kf(format!("expected the date {:?} got {}", civil_from_ce(*e), other.brief()), classify_known(c, &slot)),
            (Expect::Duration(e), Slot::Ok { v: V::Dur(s, 0), .. }) => {
                if s != e {
                    acc.fail(format!("expected {} days got {} s", e / 86400, s));
                }
            }
            (Expect::Duration(e), other) => acc.fail(format!("expected Duration({} days) got {}", e / 86400, other.brief())),
        }
        // classes of month-boundary crossings
        let mut nt = false;
        if let (Shape::Arith(d, plus, n, u, _, _), Expect::Date(e)) = (&c.shape, &exp) {
            let (ry, rm, _) = civil_from_ce(*e);
            let (sy, sm) = (d.year(), d.m as i64);
            if (ry, rm) != (sy, sm) {
                nt = true;
                crossing.push("crosses-month-boundary");
            }
            if ry != sy {
                crossing.push("crosses-year-boundary");
            }
            if rm == 12 || sm == 12 {
                crossing.push("december-involved");
            }
            if d.d > 28 {
                crossing.push("starts-after-the-28th");
            }
            if matches!(u, Unit::Months) && !*plus && (*n as i64 % 12) >= sm {
                crossing.push("month-subtraction-with-borrow");
            }
            if matches!(u, Unit::Days | Unit::Weeks) && library_days(*n, *u, None) >= 30 {
                crossing.push("thirty-days-or-more");
            }
            let lo = ce_days(sy, sm, d.d as i64).min(*e);
            let hi = ce_days(sy, sm, d.d as i64).max(*e);
            // crosses a 29 February
            let (ly, _, _) = civil_from_ce(lo);
            for yy in ly..=ly + 1 {
                if valid_ymd(yy, 2, 29) {
                    let f = ce_days(yy, 2, 29);
                    if lo < f && f <= hi {
                        crossing.push("crosses-29-feb");
                    }
                }
            }
        }
        let kind: &'static str = match &c.shape {
            Shape::Literal(_) => "literal",
            Shape::Impossible(_) => "impossible-date",
            Shape::Arith(_, _, _, Unit::Days, ..) => "arith:days",
            Shape::Arith(_, _, _, Unit::Weeks, ..) => "arith:weeks",
            Shape::Arith(_, _, _, Unit::Months, ..) => "arith:months",
            Shape::Arith(_, _, _, Unit::Years, ..) => "arith:years",
            Shape::Diff(..) => "difference",
            Shape::Const(..) => "today-constants",
            Shape::ConstDiff(..) => "today-constants",
        };
        let lit_nt = match &c.shape {
            Shape::Literal(d) => !matches!(d.spell, Spell::Slash(false, false)),
            Shape::Impossible(_) | Shape::Diff(..) => true,
            Shape::Const(_, Some(_)) | Shape::ConstDiff(..) => true,
            _ => false,
        };
        let mut v = acc.finish(rendered).nt(nt || lit_nt).class(kind).class_if(via_checked, "operand-also-via-a-variable").class_if(c.lang == "tr", "lang:tr");
        for cl in crossing {
            v = v.class(cl);
        }
        v
    }
}

/// the printed date: "<day> <Month> [<year>]" with the language's month name, year iff not current
pub fn check_output(lang: &str, out: &str, ce: i64, current_year: i64) -> Result<(), String> {
    let (y, m, d) = civil_from_ce(ce);
    let parts: Vec<&str> = out.split(' ').collect();
    let want_year = y != current_year;
    if parts.len() != if want_year { 3 } else { 2 } {
        return Err(format!("printed {:?}: the year must be shown iff it is not the current year ({})", out, current_year));
    }
    if parts[0] != d.to_string() {
        return Err(format!("printed {:?}: day should be {}", out, d));
    }
    let names = vocab().month_names(lang, m as u32);
    if !names.iter().any(|n| n.to_lowercase() == parts[1].to_lowercase()) {
        return Err(format!("printed {:?}: {:?} is not a {} name of month {}", out, parts[1], lang, m));
    }
    // the two shipped languages print the long name without the year and the short name with it, in the language's
    // own spelling
    if let Some((long, short)) = vocab().month_print_names(lang, m as u32) {
        let want = if want_year { short } else { long };
        if parts[1] != want {
            return Err(format!("printed {:?}: the month should be printed {:?}", out, want));
        }
    }
    if want_year && parts[2] != y.to_string() {
        return Err(format!("printed {:?}: year should be {}", out, y));
    }
    Ok(())
}

// ---- strategies --------------------------------------------------------------------------------

pub fn ymd_strategy() -> impl Strategy<Value = (Option<i32>, u32, u32)> {
    let lo = ce_days(1, 1, 1);
    let hi = ce_days(9999, 12, 31);
    let uniform = (lo..=hi).prop_map(|ce| {
        let (y, m, d) = civil_from_ce(ce);
        (Some(y as i32), m as u32, d as u32)
    });
    let recent = (ce_days(1900, 1, 1)..=ce_days(2100, 12, 31)).prop_map(|ce| {
        let (y, m, d) = civil_from_ce(ce);
        (Some(y as i32), m as u32, d as u32)
    });
    // month ends, leap days, December / January
    let edges = (1i32..=9999, 1u32..=12, 0u32..4).prop_map(|(y, m, k)| {
        let dim = days_in_month(y as i64, m as i64) as u32;
        let d = match k {
            0 => dim,
            1 => 1,
            2 => dim.min(28),
            _ => dim.saturating_sub(1).max(1),
        };
        (Some(y), m, d)
    });
    let leap = (0i32..=2499, any::<bool>()).prop_map(|(q, feb29)| {
        let y = (q * 4).max(4);
        if valid_ymd(y as i64, 2, 29) && feb29 {
            (Some(y), 2, 29)
        } else {
            (Some(y), 2, 28)
        }
    });
    let this_year = (1u32..=12, 1u32..=28).prop_map(|(m, d)| (None, m, d));
    prop_oneof![3 => uniform, 4 => recent, 3 => edges, 1 => leap, 2 => this_year]
}

pub fn spell_strategy() -> impl Strategy<Value = Spell> {
    prop_oneof![
        3 => (any::<bool>(), any::<bool>()).prop_map(|(l, s)| Spell::Slash(l, s)),
        4 => (any::<u32>(), 0u8..5, any::<u32>()).prop_map(|(p, c, b)| Spell::DMonY(p, c, b)),
        3 => (any::<u32>(), 0u8..5, any::<u32>(), any::<bool>()).prop_map(|(p, c, b, k)| Spell::MonDY(p, c, b, k)),
        2 => (any::<u32>(), 0u8..5, any::<u32>()).prop_map(|(p, c, b)| Spell::DMon(p, c, b)),
    ]
}

pub fn datelit(lang: &'static str) -> impl Strategy<Value = DateLit> {
    (ymd_strategy(), spell_strategy()).prop_map(move |((y, m, d), spell)| {
        // the year-less spelling is only right for the current year
        let spell = match (&spell, y) {
            (Spell::DMon(p, c, b), Some(_)) => Spell::DMonY(*p, *c, *b),
            _ => spell,
        };
        DateLit { y, m, d, spell }.normalise(lang)
    })
}

pub fn impossible(lang: &'static str) -> impl Strategy<Value = DateLit> {
    // (a fifth of the cases: 29 February of a century year that is not a leap year - the rule a hand-made calendar gets wrong)
    (prop_oneof![4 => (1i32..=9999, 1u32..=12), 1 => prop::sample::select(vec![100i32, 200, 300, 500, 1700, 1800, 1900, 2100, 2200, 2300, 2500, 9900]).prop_map(|y| (y, 2u32))], 0u8..4, spell_strategy()).prop_map(move |((y, m), kind, spell)| {
        let kind = if m == 2 && y % 100 == 0 { 1 } else { kind };
        let dim = days_in_month(y as i64, m as i64) as u32;
        let (m2, d2) = match kind {
            0 => (m, 0),
            1 => (m, dim + 1),
            2 => (0, 15),
            _ => (13, 15),
        };
        // month 0 / 13 can only be written with slashes
        let spell = if m2 == 0 || m2 == 13 { Spell::Slash(false, false) } else { spell };
        let spell = match spell {
            Spell::DMon(p, c, b) => Spell::DMonY(p, c, b),
            s => s,
        };
        DateLit { y: Some(y), m: m2, d: d2, spell }.normalise(lang)
    })
}

pub fn shape_strategy(lang: &'static str) -> impl Strategy<Value = Shape> {
    let n_days = prop_oneof![4 => 0u32..=29, 3 => 30u32..=400, 2 => 0u32..=100_000];
    let n_weeks = prop_oneof![4 => 0u32..=4, 3 => 5u32..=60, 1 => 0u32..=14_000];
    let n_months = prop_oneof![5 => 0u32..=36, 2 => 0u32..=1200];
    let n_years = prop_oneof![5 => 0u32..=40, 2 => 0u32..=500];
    prop_oneof![
        4 => datelit(lang).prop_map(Shape::Literal),
        2 => impossible(lang).prop_map(Shape::Impossible),
        3 => (datelit(lang), any::<bool>(), n_days, 0u8..2).prop_map(|(d, p, n, sp)| Shape::Arith(d, p, n, Unit::Days, sp, None)),
        2 => (datelit(lang), any::<bool>(), n_weeks, 0u8..2).prop_map(|(d, p, n, sp)| Shape::Arith(d, p, n, Unit::Weeks, sp, None)),
        5 => (datelit(lang), any::<bool>(), n_months, 0u8..2, prop::option::weighted(0.3, 0u8..=29)).prop_map(|(d, p, n, sp, e)| Shape::Arith(d, p, n, Unit::Months, sp, e)),
        3 => (datelit(lang), any::<bool>(), n_years, 0u8..2, prop::option::weighted(0.2, 0u8..=29)).prop_map(|(d, p, n, sp, e)| Shape::Arith(d, p, n, Unit::Years, sp, e)),
        3 => (datelit(lang), datelit(lang)).prop_map(move |(mut a, b)| {
            // Turkish writes `A B arası`: a year-less A followed by the day number of B would read as `d Mon y`
            if lang == "tr" {
                if let Spell::DMon(p, c, bb) = a.spell.clone() {
                    a.spell = Spell::DMonY(p, c, bb);
                }
            }
            Shape::Diff(a, b)
        }),
        1 => (0u8..3, prop::option::weighted(0.6, (any::<bool>(), 0u32..=29))).prop_map(|(w, o)| Shape::Const(w, o)),
        1 => (0u8..3, 0u8..3).prop_map(|(a, b)| Shape::ConstDiff(a, b)),
    ]
}

pub fn case_strategy() -> impl Strategy<Value = Case> {
    (case_strategy_default_separators(), prop_oneof![3 => Just(0u8), 1 => 1u8..4], prop::bool::weighted(0.25), prop::bool::weighted(0.25)).prop_map(|(mut c, seps, glue, via_var)| {
        c.seps = seps;
        c.glue = glue;
        c.via_var = via_var;
        c
    })
}

fn case_strategy_default_separators() -> impl Strategy<Value = Case> {
    prop_oneof![
        4 => shape_strategy("en").prop_map(|shape| Case { lang: "en".into(), shape, tz: None, seps: 0, glue: false, via_var: false }),
        2 => shape_strategy("tr").prop_map(|shape| Case { lang: "tr".into(), shape, tz: None, seps: 0, glue: false, via_var: false }),
        2 => (shape_strategy("en"), prop::sample::select(ZONES.to_vec())).prop_map(|(shape, z)| Case { lang: "en".into(), shape, tz: Some(z.to_string()), seps: 0, glue: false, via_var: false }),
        1 => (shape_strategy("tr"), prop::sample::select(ZONES.to_vec())).prop_map(|(shape, z)| Case { lang: "tr".into(), shape, tz: Some(z.to_string()), seps: 0, glue: false, via_var: false }),
    ]
}

/// month-arithmetic grid: 12 start months x N 0..36 x +- x days {1, 15, 28} x two years
pub fn month_grid() -> Vec<Case> {
    let mut out = vec![];
    for y in [2021, 2024] {
        for m in 1..=12u32 {
            for n in 0..=36u32 {
                for plus in [true, false] {
                    for d in [1u32, 15, 28] {
                        out.push(Case { lang: "en".into(), shape: Shape::Arith(DateLit { y: Some(y), m, d, spell: Spell::DMonY(0, 0, 0) }, plus, n, Unit::Months, 1, None), tz: None, seps: 0, glue: false, via_var: false });
                    }
                }
            }
            for n in 0..=5u32 {
                for plus in [true, false] {
                    out.push(Case { lang: "en".into(), shape: Shape::Arith(DateLit { y: Some(y), m, d: 15, spell: Spell::Slash(false, false) }, plus, n, Unit::Years, 1, None), tz: None, seps: 0, glue: false, via_var: false });
                }
            }
        }
    }
    // every month name of every language, every spelling
    for lang in ["en", "tr"] {
        for m in 1..=12u32 {
            let names = vocab().month_names(lang, m);
            for (i, _) in names.iter().enumerate() {
                let pick = ((i as u64 * (1u64 << 32)) / names.len() as u64 + 1) as u32;
                for cp in 0..4u8 {
                    out.push(Case { lang: lang.into(), shape: Shape::Literal(DateLit { y: Some(2020), m, d: 12, spell: Spell::DMonY(pick, cp, 0) }), tz: None, seps: 0, glue: false, via_var: false });
                    out.push(Case { lang: lang.into(), shape: Shape::Literal(DateLit { y: None, m, d: 12, spell: Spell::DMon(pick, cp, 0) }), tz: None, seps: 0, glue: false, via_var: false });
                    if lang == "en" {
                        out.push(Case { lang: lang.into(), shape: Shape::Literal(DateLit { y: Some(1999), m, d: 31.min(days_in_month(1999, m as i64) as u32), spell: Spell::MonDY(pick, cp, 0, cp % 2 == 0) }), tz: None, seps: 0, glue: false, via_var: false });
                    }
                }
            }
        }
    }
    out
}

pub fn run(ctx: &Ctx) {
    crate::calendar::self_test();
    ctx.rule("generated: dates of years 1..9999 (uniform day numbers, recent years, month ends, leap days, Dec/Jan, the current year) in every spelling (d/m/y with/without leading zeros and blanks, d Mon y, d Month y, Mon d[,] y, d Mon) in any letter case, English and Turkish (all configured month names incl. ASCII variants); impossible dates (day 0, day past the end of the month incl. 29 Feb of non-leap years, month 0/13); D +- N days|weeks|months|years (+ extra days; for spans below 30 days also with the sign glued to the count: `10 june 2020 -3 weeks`), A to B in both orders, today/tomorrow/yesterday and their differences; a quarter of the cases under one of the other three separator conventions (dates contain no separators), a third of the cases under a non-UTC default zone (GMT+14, GMT-12, EST, CET, IST, NPT, GMT+13:45, GMT-9:30: calendar dates and their arithmetic do not depend on the zone, and the three day constants stay consecutive); metamorphic step: the duration of an arithmetic line / the first date of a difference also held in a name bound on an earlier line (the line must give exactly the literal line's value); 'Month day , year' with the comma standing apart; every other via-name step holds only the COUNT in the name (b = 3 / D + b days); oracle: independent proleptic-Gregorian calendar (days-from-civil), month arithmetic = month index moved by N keeping the day of month (asserted only when that day exists and the result is in years 1..9999), differences = |days|*86400 s, output month word/year elision checked; exhaustive grid 12 months x N 0..36 x +- x days {1,15,28}; non-trivial = the operation crosses a month boundary, or a non-canonical spelling, an impossible date, a difference");
    ctx.assume("the clock: expected values for today/current-year are computed from chrono::Utc read before and after each evaluation; a case during which the date changes is skipped");
    ctx.assume("a third of the cases run under a non-UTC default zone; there a bare today/tomorrow/yesterday may be the UTC day or the zone's day (at most one day apart), their differences must still be exactly one and two days");
    ctx.run_table(&Dates, "month-grid+month-names", month_grid(), true);
    ctx.run_generated(&Dates, ctx.tier.pick(200_000, 2_000_000), case_strategy);
}

pub fn replay(w: &mut Worker, sub: &str, case: &serde_json::Value) -> Option<Verdict> {
    match sub {
        "dates" => crate::engine::replay_case(&Dates, w, case),
        _ => None,
    }
}
