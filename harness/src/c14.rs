//! C14 — unix timestamps convert to and from date-times as mutual inverses.

use crate::c09::{current_year, DateLit, Spell};
use crate::c11::{zone_strategy, TimeLit, Zone};
use crate::calendar::{ce_days, civil_from_days, days_from_civil};
use crate::common::{Cfg, Slot, NT, V};
use crate::engine::{Acc, Ctx, Prop, Verdict, Worker};
use crate::lines::{Class, Line, NumLit, Tok};
use crate::vocab::vocab;
use proptest::prelude::*;
use serde::{Deserialize, Serialize};

pub const MIN_TS: i64 = -62_135_596_800;
pub const MAX_TS: i64 = 253_402_300_799;
pub const UNIX_WORDS: [&str; 3] = ["unix", "unixtime", "unixtimestamp"];
/// connectives; index 4 = none. "in" is never written directly after a number (it would read as inch)
pub const CONN: [&str; 5] = ["as", "to", "into", "in", ""];

#[derive(Clone, Debug, Serialize, Deserialize)]
pub enum Shape {
    /// N [to] date   (with_to)
    ToDate(i64, bool),
    /// N [to] Z
    ToZone(i64, bool, Zone),
    /// D conn unix-word
    DateAsUnix(DateLit, u8, u8),
    /// T [Z] conn unix-word
    TimeAsUnix(TimeLit, Option<Zone>, u8, u8),
    /// x = D at T|H ; x as unix    (hour-only form when the bool is true)
    DateTimeVar(DateLit, TimeLit, bool),
    /// x = D at T Z ; x as unix     (the time carries an explicit zone)
    DateTimeZoneVar(DateLit, TimeLit, Zone),
    /// d = D ; d at T as unix ; e = d at T ; e as unix   (the one-line form and the two-step form agree)
    DateNameAtTime(DateLit, TimeLit),
    /// N to date as unix (one line)
    InverseLine(i64),
    /// x = N to [date|Z] ; x as unix
    InverseVar(i64, Option<Zone>),
    /// D as unix to date
    DateRoundTrip(DateLit),
}

#[derive(Clone, Debug, Serialize, Deserialize)]
pub struct Case {
    pub shape: Shape,
    pub default_tz: Option<Zone>,
}

fn ts_tok(n: i64) -> Tok {
    Tok::num(NumLit { v: n.abs() as f64, sign: if n < 0 { 1 } else { 0 }, group: false })
}

fn conn_toks(conn: u8, after_number: bool) -> Vec<Tok> {
    let mut c = conn as usize % 5;
    if after_number && c == 3 {
        c = 0;
    }
    if CONN[c].is_empty() {
        vec![]
    } else {
        vec![Tok::word(CONN[c], Class::Conn)]
    }
}

fn date_ends_with_number(d: &DateLit) -> bool {
    !matches!(d.spell, Spell::DMon(..))
}

/// the lines of a case (one or two)
pub fn case_lines(c: &Case) -> Vec<Line> {
    let kw = |w: &str| Tok::word(w, Class::Keyword);
    let z = |zn: &Zone| zn.tok(0, 0);
    let mut l = Line::default();
    let mut push = |l: &mut Line, v: Vec<Tok>| {
        for t in v {
            l.push(t);
        }
    };
    match &c.shape {
        Shape::ToDate(n, to) => {
            l.push(ts_tok(*n));
            if *to {
                l.push(Tok::word("to", Class::Conn));
            }
            l.push(kw("date"));
            vec![l]
        }
        Shape::ToZone(n, to, zn) => {
            l.push(ts_tok(*n));
            if *to {
                l.push(Tok::word("to", Class::Conn));
            }
            l.push(z(zn));
            vec![l]
        }
        Shape::DateAsUnix(d, conn, w) => {
            push(&mut l, d.toks("en"));
            push(&mut l, conn_toks(*conn, date_ends_with_number(d)));
            l.push(kw(UNIX_WORDS[*w as usize % 3]));
            vec![l]
        }
        Shape::TimeAsUnix(t, zn, conn, w) => {
            l.push(t.tok());
            if let Some(zn) = zn {
                l.push(z(zn));
            }
            push(&mut l, conn_toks(*conn, false));
            l.push(kw(UNIX_WORDS[*w as usize % 3]));
            vec![l]
        }
        Shape::DateTimeVar(d, t, hour_only) => {
            l.push(Tok::word("moment", Class::Var));
            l.push(Tok::op('='));
            push(&mut l, d.toks("en"));
            l.push(Tok::word("at", Class::Conn));
            if *hour_only {
                l.push(Tok::num(NumLit { v: t.h as f64, sign: 0, group: false }));
            } else {
                l.push(t.tok());
            }
            let mut l2 = Line::default();
            l2.push(Tok::word("moment", Class::Var));
            l2.push(Tok::word("as", Class::Conn));
            l2.push(kw("unix"));
            vec![l, l2]
        }
        Shape::DateTimeZoneVar(d, t, zn) => {
            l.push(Tok::word("moment", Class::Var));
            l.push(Tok::op('='));
            push(&mut l, d.toks("en"));
            l.push(Tok::word("at", Class::Conn));
            l.push(t.tok());
            l.push(z(zn));
            let mut l2 = Line::default();
            l2.push(Tok::word("moment", Class::Var));
            l2.push(Tok::word("as", Class::Conn));
            l2.push(kw("unix"));
            vec![l, l2]
        }
        Shape::DateNameAtTime(d, t) => {
            let mut def = Line::default();
            def.push(Tok::word("d", Class::Var));
            def.push(Tok::op('='));
            push(&mut def, d.toks("en"));
            let mut one = Line::default();
            one.push(Tok::word("d", Class::Var));
            one.push(Tok::word("at", Class::Conn));
            one.push(t.tok());
            one.push(Tok::word("as", Class::Conn));
            one.push(kw("unix"));
            let mut two = Line::default();
            two.push(Tok::word("e", Class::Var));
            two.push(Tok::op('='));
            two.push(Tok::word("d", Class::Var));
            two.push(Tok::word("at", Class::Conn));
            two.push(t.tok());
            let mut last = Line::default();
            last.push(Tok::word("e", Class::Var));
            last.push(Tok::word("as", Class::Conn));
            last.push(kw("unix"));
            vec![def, one, two, last]
        }
        Shape::InverseLine(n) => {
            l.push(ts_tok(*n));
            l.push(Tok::word("to", Class::Conn));
            l.push(kw("date"));
            l.push(Tok::word("as", Class::Conn));
            l.push(kw("unix"));
            vec![l]
        }
        Shape::InverseVar(n, zn) => {
            l.push(Tok::word("moment", Class::Var));
            l.push(Tok::op('='));
            l.push(ts_tok(*n));
            l.push(Tok::word("to", Class::Conn));
            match zn {
                Some(zn) => l.push(z(zn)),
                None => l.push(kw("date")),
            }
            let mut l2 = Line::default();
            l2.push(Tok::word("moment", Class::Var));
            l2.push(Tok::word("as", Class::Conn));
            l2.push(kw("unix"));
            vec![l, l2]
        }
        Shape::DateRoundTrip(d) => {
            push(&mut l, d.toks("en"));
            l.push(Tok::word("as", Class::Conn));
            l.push(kw("unix"));
            l.push(Tok::word("to", Class::Conn));
            l.push(kw("date"));
            vec![l]
        }
    }
}

pub fn tz_cfg(c: &Case) -> Cfg {
    match &c.default_tz {
        Some(z) => Cfg::default().with_tz(&z.text()),
        None => Cfg::default(),
    }
}

/// civil fields of a timestamp shifted by an offset (independent arithmetic)
pub fn civil_of(ts: i64, off_min: i32) -> (i64, i64, i64, i64, i64, i64) {
    let local = ts + off_min as i64 * 60;
    let days = local.div_euclid(86400);
    let secs = local.rem_euclid(86400);
    let (y, m, d) = civil_from_days(days);
    (y, m, d, secs / 3600, (secs / 60) % 60, secs % 60)
}

/// "d Mon yyyy HH:MM:SS ZONE" or, in the current year, "d Month HH:MM:SS ZONE"
pub fn check_datetime_output(out: &str, ts: i64, zone: &str, off: i32, cy: i64) -> Result<(), String> {
    let (y, m, d, h, mi, s) = civil_of(ts, off);
    let parts: Vec<&str> = out.split(' ').collect();
    let want_year = y != cy;
    let n = if want_year { 5 } else { 4 };
    if parts.len() != n {
        return Err(format!("printed {:?}: expected {} fields (year shown iff it is not {})", out, n, cy));
    }
    if parts[0] != d.to_string() {
        return Err(format!("printed {:?}: day should be {}", out, d));
    }
    let names = vocab().month_names("en", m as u32);
    if !names.iter().any(|nm| nm.to_lowercase() == parts[1].to_lowercase()) {
        return Err(format!("printed {:?}: {:?} is not a name of month {}", out, parts[1], m));
    }
    let mut k = 2;
    if want_year {
        if parts[2] != y.to_string() {
            return Err(format!("printed {:?}: year should be {}", out, y));
        }
        k = 3;
    }
    let clock = format!("{:02}:{:02}:{:02}", h, mi, s);
    if parts[k] != clock {
        return Err(format!("printed {:?}: clock should be {} (instant {} shown at offset {} min)", out, clock, ts, off));
    }
    if parts[k + 1] != zone {
        return Err(format!("printed {:?}: zone should be {}", out, zone));
    }
    Ok(())
}

pub struct Unix;

fn expect_raw(acc: &mut Acc, slot: &Slot, n: i64, what: &str) {
    match slot {
        Slot::Ok { v: V::Num(v, NT::Raw), out } => {
            if *v != n as f64 {
                acc.fail(format!("{}: expected the timestamp {} got {}", what, n, v));
            } else if *out != n.to_string() {
                acc.fail(format!("{}: the timestamp {} is printed as {:?}", what, n, out));
            }
        }
        other => acc.fail(format!("{}: expected the timestamp {} got {}", what, n, other.brief())),
    }
}

impl Prop for Unix {
    type Case = Case;
    fn name(&self) -> &'static str {
        "unix"
    }
    fn check(&self, w: &mut Worker, c: &Case) -> Verdict {
        let cfg = tz_cfg(c);
        let lines: Vec<String> = case_lines(c).iter().map(|l| l.render(",", ".")).collect();
        let text = lines.join("\n");
        let dz = c.default_tz.clone().unwrap_or(Zone::Abbr("UTC".into()));
        let rendered = format!("[default zone {}] {}", dz.text(), text.replace('\n', " ; "));
        let cy0 = current_year() as i64;
        let out = match w.eval(&cfg, "en", &text) {
            Ok(o) => o,
            Err(p) => return Verdict::fail(format!("panic at {}: {}", p.site, p.message), rendered),
        };
        if current_year() as i64 != cy0 {
            return Verdict::skip("year changed during the case", rendered);
        }
        let mut acc = Acc::new();
        if !out.status || out.slots.len() != lines.len() {
            return Verdict::fail(format!("status={} slots={} for {} lines", out.status, out.slots.len(), lines.len()), rendered);
        }
        let last = out.slots.last().unwrap().clone();
        let mut n_for_class: Option<i64> = None;
        let mut zone_off = dz.offset();
        let kind: &'static str;
        match &c.shape {
            Shape::ToDate(n, _) | Shape::ToZone(n, _, _) => {
                kind = "N-to-date";
                n_for_class = Some(*n);
                let zz = match &c.shape {
                    Shape::ToZone(_, _, z) => z.clone(),
                    _ => dz.clone(),
                };
                zone_off = zz.offset();
                match &last {
                    Slot::Ok { v: V::DateTime(ts, zn, zo), out } => {
                        if *ts != *n {
                            acc.fail(format!("expected the instant {} got {}", n, ts));
                        } else if *zn != zz.text().to_uppercase() || *zo != zz.offset() {
                            acc.fail(format!("expected zone {} ({} min) got {} ({} min)", zz.text(), zz.offset(), zn, zo));
                        } else if let Err(e) = check_datetime_output(out, *n, zn, *zo, cy0) {
                            acc.fail(e);
                        }
                    }
                    other => acc.fail(format!("expected DateTime({}) got {}", n, other.brief())),
                }
            }
            Shape::DateAsUnix(d, _, _) => {
                kind = "date-as-unix";
                let n = 86400 * days_from_civil(d.year(), d.m as i64, d.d as i64);
                n_for_class = Some(n);
                expect_raw(&mut acc, &last, n, "date as unix");
                // the same date held in a name bound on an earlier line (also after `to <zone>` re-zoned it): midnight UTC of that date
                if acc.ok() {
                    let mut def = Line::default();
                    def.push(Tok::word("d", Class::Var));
                    def.push(Tok::op('='));
                    for t in d.toks("en") {
                        def.push(t);
                    }
                    let text2 = format!("{}\nd as unix", def.render(",", "."));
                    match w.eval(&cfg, "en", &text2) {
                        Ok(o) if o.slots.len() == 2 => expect_raw(&mut acc, &o.slots[1], n, "date held in a variable, as unix"),
                        Ok(o) => acc.fail(format!("{} slots for two lines", o.slots.len())),
                        Err(p) => acc.fail(format!("panic at {}: {}", p.site, p.message)),
                    }
                }
            }
            Shape::TimeAsUnix(t, zn, _, _) => {
                kind = "time-as-unix";
                // metamorphic: the instant found in the AST of the operand evaluated alone
                let mut alone = Line::default();
                alone.push(t.tok());
                if let Some(zn) = zn {
                    alone.push(zn.tok(0, 0));
                    zone_off = zn.offset();
                }
                match w.eval1(&cfg, "en", &alone.render(",", ".")) {
                    Ok(Slot::Ok { v: V::Time(ts, _, _, _), .. }) => {
                        n_for_class = Some(ts);
                        expect_raw(&mut acc, &last, ts, "time as unix");
                        // two relations that do not depend on which calendar day "today" is:
                        // (a) the seconds between midnight and T in the same zone are T's wall-clock seconds
                        let midnight = crate::c11::TimeLit { h: 0, m: 0, s: None, form: 0, mcase: 0 };
                        let mut l0 = Line::default();
                        l0.push(midnight.tok());
                        if let Some(zn) = zn {
                            l0.push(zn.tok(0, 0));
                        }
                        l0.push(Tok::word("as", Class::Conn));
                        l0.push(Tok::word("unix", Class::Keyword));
                        match w.eval1(&cfg, "en", &l0.render(",", ".")) {
                            Ok(Slot::Ok { v: V::Num(m0, NT::Raw), .. }) => {
                                if acc.ok() && (ts as f64 - m0) != t.wall() as f64 {
                                    acc.fail(format!("'{}' is {} s after '{}' ({}), expected the wall-clock seconds {}", alone.render(",", "."), ts as f64 - m0, l0.render(",", "."), m0, t.wall()));
                                }
                            }
                            Ok(o) => acc.fail(format!("{:?} gives {}", l0.render(",", "."), o.brief())),
                            Err(e) => acc.fail(e),
                        }
                        // (b) a time without a zone under default zone Z is the same instant as the time written with Z
                        if acc.ok() && zn.is_none() {
                            let zexp = c.default_tz.clone().unwrap_or(Zone::Abbr("UTC".to_string()));
                            let mut l1 = Line::default();
                            l1.push(t.tok());
                            l1.push(zexp.tok(0, 0));
                            l1.push(Tok::word("as", Class::Conn));
                            l1.push(Tok::word("unix", Class::Keyword));
                            match w.eval1(&cfg, "en", &l1.render(",", ".")) {
                                Ok(Slot::Ok { v: V::Num(x, NT::Raw), .. }) => {
                                    if x != ts as f64 {
                                        acc.fail(format!("under the default zone {} the time alone is the instant {}, written with its zone ({:?}) it is {}", zexp.text(), ts, l1.render(",", "."), x));
                                    }
                                }
                                Ok(o) => acc.fail(format!("{:?} gives {}", l1.render(",", "."), o.brief())),
                                Err(e) => acc.fail(e),
                            }
                        }
                    }
                    Ok(o) => acc.fail(format!("the time alone gives {}", o.brief())),
                    Err(e) => acc.fail(e),
                }
            }
            Shape::DateTimeVar(d, t, hour_only) => {
                kind = "datetime-as-unix";
                // metamorphic: the instant is the one found in the AST of the date-time itself (what
                // `D at H` denotes under a non-UTC default zone is not part of this statement)
                let _ = (d, t, hour_only);
                match &out.slots[0] {
                    Slot::Ok { v: V::DateTime(ts, _, _), .. } => {
                        n_for_class = Some(*ts);
                        expect_raw(&mut acc, &last, *ts, "date-time as unix");
                    }
                    other => acc.fail(format!("expected a DateTime got {}", other.brief())),
                }
            }
            Shape::DateTimeZoneVar(d, t, zn) => {
                kind = "datetime-with-explicit-zone-as-unix";
                zone_off = zn.offset();
                match &out.slots[0] {
                    Slot::Ok { v: V::DateTime(ts, _, _), .. } => {
                        n_for_class = Some(*ts);
                        expect_raw(&mut acc, &last, *ts, "date-time as unix");
                        // the time is written with its zone, so the instant is that wall clock at that offset on the day
                        // D (when the instant's UTC clock falls on the same day; which day it is otherwise is not part of
                        // this statement) ...
                        let utc_secs = t.wall() - zn.offset() as i64 * 60;
                        if acc.ok() && (0..86400).contains(&utc_secs) {
                            let want = 86400 * days_from_civil(d.year(), d.m as i64, d.d as i64) + utc_secs;
                            if *ts != want {
                                acc.fail(format!("the date-time is the instant {}, but {} on that day is {}", ts, lines[0], want));
                            }
                        }
                        // ... and it is the same instant whatever zone the calculator shows results in
                        if acc.ok() && c.default_tz.is_some() {
                            match w.eval(&Cfg::default(), "en", &text) {
                                Ok(o) => match o.slots.first() {
                                    Some(Slot::Ok { v: V::DateTime(ts0, _, _), .. }) if ts0 == ts => {}
                                    other => acc.fail(format!("under the default zone {} the date-time is the instant {}, under UTC it is {:?}", dz.text(), ts, other.map(|s| s.brief()))),
                                },
                                Err(p) => acc.fail(format!("panic at {}: {}", p.site, p.message)),
                            }
                        }
                    }
                    other => acc.fail(format!("expected a DateTime got {}", other.brief())),
                }
            }
            Shape::DateNameAtTime(d, t) => {
                kind = "date-name-at-time-as-unix-on-one-line";
                let _ = (d, t);
                match (&out.slots[1], &last) {
                    (Slot::Ok { v: V::Num(a, NT::Raw), .. }, Slot::Ok { v: V::Num(b, NT::Raw), .. }) => {
                        n_for_class = Some(*b as i64);
                        if a != b {
                            acc.fail(format!("'d at T as unix' on one line gives {}, but 'e = d at T' / 'e as unix' gives {}", a, b));
                        }
                    }
                    (x, y) => {
                        if !x.same(y) {
                            acc.fail(format!("'d at T as unix' on one line gives {}, but 'e = d at T' / 'e as unix' gives {}", x.brief(), y.brief()));
                        }
                    }
                }
            }
            Shape::InverseLine(n) => {
                kind = "inverse";
                n_for_class = Some(*n);
                expect_raw(&mut acc, &last, *n, "N to date as unix");
            }
            Shape::InverseVar(n, zn) => {
                kind = "inverse";
                n_for_class = Some(*n);
                if let Some(zn) = zn {
                    zone_off = zn.offset();
                }
                expect_raw(&mut acc, &last, *n, "x = N to date; x as unix");
            }
            Shape::DateRoundTrip(d) => {
                kind = "date-round-trip";
                let n = 86400 * days_from_civil(d.year(), d.m as i64, d.d as i64);
                n_for_class = Some(n);
                match &last {
                    Slot::Ok { v: V::DateTime(ts, _, _), .. } => {
                        if *ts != n {
                            acc.fail(format!("D as unix to date: expected midnight UTC of D ({}) got {}", n, ts));
                        }
                    }
                    other => acc.fail(format!("expected DateTime({}) got {}", n, other.brief())),
                }
            }
        }
        // history of setter calls: a REJECTED set_timezone call (unknown zone name) after the accepted one changes nothing
        let mut after_rejected_call = false;
        if acc.ok() && c.default_tz.is_some() && text.bytes().fold(0u32, |h, b| h.wrapping_mul(31).wrapping_add(b as u32)) % 16 == 0 {
            let mut calc = crate::common::build_calc(&cfg);
            let rejected = crate::engine::guarded(|| calc.set_timezone("no such zone".to_string()));
            w.count_eval(1);
            match (rejected, crate::common::eval_on(&calc, "en", &text)) {
                (Ok(Err(_)), Ok(o)) => {
                    after_rejected_call = true;
                    if o.slots.len() != out.slots.len() || !o.slots.iter().zip(out.slots.iter()).all(|(x, y)| x.same(y)) {
                        acc.fail(format!("after a rejected set_timezone(\"no such zone\") the text gives {:?}, before it gave {:?}", o.slots.iter().map(|s| s.brief()).collect::<Vec<_>>(), out.slots.iter().map(|s| s.brief()).collect::<Vec<_>>()));
                    }
                }
                (Ok(Ok(_)), _) => acc.fail("set_timezone(\"no such zone\") was accepted".into()),
                (Err(p), _) | (_, Err(p)) => acc.fail(format!("panic at {}: {}", p.site, p.message)),
            }
        }
        let n = n_for_class.unwrap_or(0);
        acc.finish(rendered).class_if(after_rejected_call, "also-after-a-rejected-set_timezone-call").nt(n.abs() > 86400 && (zone_off != 0 || n < 0 || n >= 1 << 31)).class(kind).class_if(n < 0, "negative-timestamp").class_if(n >= 1 << 31, "timestamp>=2^31").class_if(zone_off != 0, "zone-offset-not-zero").class_if(c.default_tz.is_some(), "default-zone-set")
    }
}

pub fn ts_strategy() -> impl Strategy<Value = i64> {
    let mut b: Vec<i64> = vec![0, 1, -1, 86400, -86400, 86399, (1 << 31) - 1, 1 << 31, (1 << 31) + 1, 1 << 32, MIN_TS, MAX_TS, MIN_TS + 1, MAX_TS - 1, 951_782_400, 951_868_799, 1_582_934_400, 4_107_542_400];
    for y in [1i64, 2, 100, 1000, 1582, 1600, 1900, 1969, 1970, 1971, 1999, 2000, 2001, 2037, 2038, 2039, 2100, 2400, 9998, 9999] {
        b.push(86400 * days_from_civil(y, 1, 1));
        b.push(86400 * days_from_civil(y, 12, 31) + 86399);
    }
    b.retain(|x| (MIN_TS..=MAX_TS).contains(x));
    prop_oneof![3 => prop::sample::select(b), 3 => MIN_TS..=MAX_TS, 3 => 0i64..=4_102_444_800, 1 => -4_102_444_800i64..=0]
}

pub fn date_strategy() -> impl Strategy<Value = DateLit> {
    crate::c09::datelit("en")
}

pub fn case_strategy() -> impl Strategy<Value = Case> {
    let defaults = prop_oneof![
        5 => Just(None),
        4 => prop::sample::select(vec![Zone::Abbr("EST".into()), Zone::Abbr("CET".into()), Zone::Abbr("NPT".into()), Zone::Abbr("IST".into()), Zone::Gmt(false, 5, 30, 1), Zone::Gmt(true, 11, 0, 0), Zone::Gmt(false, 19, 59, 2), Zone::Abbr("HNT".into()), Zone::Abbr("LINT".into())]).prop_map(Some),
    ];
    let time = crate::c11::time_strategy().boxed();
    let shape = prop_oneof![
        3 => (ts_strategy(), any::<bool>()).prop_map(|(n, t)| Shape::ToDate(n, t)),
        3 => (ts_strategy(), any::<bool>(), zone_strategy()).prop_map(|(n, t, z)| Shape::ToZone(n, t, z)),
        3 => (date_strategy(), 0u8..5, 0u8..3).prop_map(|(d, c, w)| Shape::DateAsUnix(d, c, w)),
        2 => (time.clone(), prop::option::of(zone_strategy()), 0u8..5, 0u8..3).prop_map(|(t, z, c, w)| Shape::TimeAsUnix(t, z, c, w)),
        2 => (date_strategy(), time, any::<bool>()).prop_map(|(d, t, h)| {
            // `D at T`: a year-less date followed by a time is fine; the am/pm hour-only form stays a time
            Shape::DateTimeVar(d, TimeLit { form: t.form % 2, ..t }, h)
        }),
        2 => (date_strategy(), crate::c11::time_strategy(), zone_strategy()).prop_map(|(d, t, z)| Shape::DateTimeZoneVar(d, TimeLit { form: t.form % 2, ..t }, z)),
        1 => (date_strategy(), crate::c11::time_strategy()).prop_map(|(d, t)| Shape::DateNameAtTime(d, TimeLit { form: t.form % 2, ..t })),
        2 => ts_strategy().prop_map(Shape::InverseLine),
        2 => (ts_strategy(), prop::option::of(zone_strategy())).prop_map(|(n, z)| Shape::InverseVar(n, z)),
        2 => date_strategy().prop_map(Shape::DateRoundTrip),
    ];
    (shape, defaults).prop_map(|(shape, default_tz)| Case { shape, default_tz })
}

pub fn table() -> Vec<Case> {
    let mut out = vec![];
    let ns: Vec<i64> = vec![0, 1, -1, 86400, -86400, (1 << 31) - 1, 1 << 31, 1 << 32, MIN_TS, MAX_TS, 1_600_000_000, 2_208_988_800, -2_208_988_800];
    let zones = [None, Some(Zone::Abbr("EST".into())), Some(Zone::Abbr("NPT".into())), Some(Zone::Gmt(false, 5, 30, 1)), Some(Zone::Gmt(true, 11, 0, 0))];
    for n in &ns {
        for dz in &zones {
            for to in [true, false] {
                out.push(Case { shape: Shape::ToDate(*n, to), default_tz: dz.clone() });
                for z in zones.iter().flatten() {
                    out.push(Case { shape: Shape::ToZone(*n, to, z.clone()), default_tz: dz.clone() });
                }
            }
            out.push(Case { shape: Shape::InverseLine(*n), default_tz: dz.clone() });
            out.push(Case { shape: Shape::InverseVar(*n, None), default_tz: dz.clone() });
        }
    }
    for (y, m, d) in [(1970, 1, 1), (1969, 12, 31), (2038, 1, 19), (2040, 1, 1), (1, 1, 1), (9999, 12, 31), (2000, 2, 29), (1900, 3, 1)] {
        for dz in &zones {
            for conn in 0..5u8 {
                for wd in 0..3u8 {
                    out.push(Case { shape: Shape::DateAsUnix(DateLit { y: Some(y), m, d, spell: Spell::Slash(false, false) }, conn, wd), default_tz: dz.clone() });
                }
            }
            out.push(Case { shape: Shape::DateRoundTrip(DateLit { y: Some(y), m, d, spell: Spell::DMonY(0, 0, 0) }), default_tz: dz.clone() });
        }
    }
    let _ = ce_days(1, 1, 1);
    out
}

pub fn run(ctx: &Ctx) {
    crate::calendar::self_test();
    ctx.rule("timestamps of years 1..9999 (0, +-1, +-86400, 2^31-1, 2^31, 2^32, year ends, negative, random) as 'N [to] date' and 'N [to] Z'; dates in every C09 spelling 'as|to|into|in unix|unixtime|unixtimestamp' (also without connective); times [with zone] as unix; date-times bound to a variable ('x = D at T', 'x = D at H') as unix, and the one-line form 'd at T as unix' with the date held in a name (= the two-step form); inverse forms 'N to date as unix', 'x = N to date; x as unix', 'D as unix to date'; default zone from a pool, explicit zones from the table and GMT forms; one case in sixteen with a default zone is repeated on a calculator that saw a REJECTED set_timezone call afterwards (same results); date-times whose time carries an explicit zone ('x = D at T Z', x as unix): the instant is that wall clock at that offset on day D (asserted when its UTC clock stays on D) and is the same under every default zone; oracle: independent civil-from-days arithmetic: AST instant = N and zone = default/requested, printed fields = instant shifted by the zone offset, D as unix = 86400*days(D) whatever the configured zone, time as unix = instant of the operand evaluated alone, inverses return N exactly, printed timestamp = every digit of N; non-trivial = |N| > 86400 and (zone offset != 0 or N < 0 or N >= 2^31)");
    ctx.assume("'in' is not written directly after a number (it would read as the unit inch); N outside years 1..9999 belongs to C01");
    ctx.run_table(&Unix, "boundary-table", table(), true);
    ctx.run_generated(&Unix, ctx.tier.pick(80_000, 800_000), case_strategy);
}

pub fn replay(w: &mut Worker, sub: &str, case: &serde_json::Value) -> Option<Verdict> {
    match sub {
        "unix" => crate::engine::replay_case(&Unix, w, case),
        _ => None,
    }
}
