//! C06 — money literals, currency conversion, money arithmetic, rate updates.

use crate::common::{build_calc, close, eval_on, Cfg, Slot, NT, READ_SEPS, V};
use crate::engine::{monotone_index, Acc, Ctx, Prop, Verdict, Worker};
use crate::lines::{recase, Class, Line, NumLit, Tok};
use crate::vocab::vocab;
use proptest::prelude::*;
use serde::{Deserialize, Serialize};
use std::collections::BTreeMap;

#[derive(Clone, Debug, PartialEq, Serialize, Deserialize)]
pub enum Spelling {
    /// `$10` (only symbols that are configured aliases: $ € ₺)
    SymBefore,
    /// `10$`, `10 $` (blanks 0..2)
    SymAfter(u8),
    /// `10 usd` / `10USD`: (blanks 0..2, case pattern, case bits)
    CodeAfter(u8, u8, u32),
    /// configured Latin alias word after the amount: (alias, blanks 1..2, case pattern, bits)
    AliasAfter(String, u8, u8, u32),
}

#[derive(Clone, Debug, PartialEq, Serialize, Deserialize)]
pub struct MoneyLit {
    pub amount: NumLit,
    pub suffix: Option<char>,
    /// lower-case currency key
    pub cur: String,
    pub spelling: Spelling,
}

pub fn symbol_alias_of(cur: &str) -> Option<String> {
    // a currency symbol that is a configured alias of this currency and is \p{Sc}
    for (alias, target) in vocab().currency_alias.iter() {
        if target == cur && alias.chars().count() == 1 && matches!(alias.as_str(), "$" | "€" | "₺" | "£" | "¥" | "₽" | "₹" | "₩" | "₪" | "₱" | "฿") {
            return Some(alias.clone());
        }
    }
    None
}

pub fn latin_aliases_of(cur: &str) -> Vec<String> {
    vocab().currency_alias.iter().filter(|(a, t)| *t == cur && a.chars().count() >= 2 && a.chars().all(|c| c.is_alphabetic()) && **a != cur.to_string()).map(|(a, _)| a.clone()).collect()
}

impl MoneyLit {
    pub fn value(&self) -> f64 {
        let f = match self.suffix {
            Some(c) => crate::c02::suffix_factor(c),
            None => 1.0,
        };
        self.amount.value() * f
    }
    pub fn code(&self) -> String {
        self.cur.to_uppercase()
    }
    /// normalise a generated literal so that its spelling exists for its currency
    pub fn normalise(mut self) -> MoneyLit {
        match &self.spelling {
            Spelling::SymBefore | Spelling::SymAfter(_) => {
                if symbol_alias_of(&self.cur).is_none() {
                    self.spelling = Spelling::CodeAfter(1, 0, 0);
                }
            }
            Spelling::AliasAfter(a, sp, cp, bits) => {
                let al = latin_aliases_of(&self.cur);
                if al.is_empty() {
                    self.spelling = Spelling::CodeAfter(*sp, *cp, *bits);
                } else if !al.contains(a) {
                    self.spelling = Spelling::AliasAfter(al[0].clone(), *sp, *cp, *bits);
                }
            }
            _ => {}
        }
        // a suffix needs at least one blank before a word/symbol that follows the amount
        if self.suffix.is_some() {
            self.spelling = match self.spelling.clone() {
                Spelling::SymAfter(sp) => Spelling::SymAfter(sp.max(1)),
                Spelling::CodeAfter(sp, c, b) => Spelling::CodeAfter(sp.max(1), c, b),
                Spelling::AliasAfter(a, sp, c, b) => Spelling::AliasAfter(a, sp.max(1), c, b),
                s => s,
            };
        }
        if let Spelling::AliasAfter(a, sp, c, b) = self.spelling.clone() {
            self.spelling = Spelling::AliasAfter(a, sp.max(1), c, b);
        }
        self
    }
    pub fn tok(&self) -> Tok {
        let suffix = self.suffix.map(|c| c.to_string()).unwrap_or_default();
        let blanks = |n: u8| " ".repeat(n as usize);
        match &self.spelling {
            Spelling::SymBefore => Tok::with(&symbol_alias_of(&self.cur).unwrap_or_else(|| "$".into()), self.amount.clone(), &suffix, Class::Money),
            Spelling::SymAfter(sp) => Tok::with("", self.amount.clone(), &format!("{}{}{}", suffix, blanks(*sp), symbol_alias_of(&self.cur).unwrap_or_else(|| "$".into())), Class::Money),
            Spelling::CodeAfter(sp, cp, bits) => Tok::with("", self.amount.clone(), &format!("{}{}{}", suffix, blanks(*sp), recase(&self.cur, *cp, *bits)), Class::Money),
            Spelling::AliasAfter(a, sp, cp, bits) => Tok::with("", self.amount.clone(), &format!("{}{}{}", suffix, blanks(*sp), recase(a, *cp, *bits)), Class::Money),
        }
    }
}

#[derive(Clone, Debug, Serialize, Deserialize)]
pub enum Shape {
    Literal(MoneyLit),
    /// amount, connective index (0 none, 1 to, 2 in, 3 into, 4 as), target word, target case pattern/bits
    Convert(MoneyLit, u8, String, u8, u32),
    /// m1 (+|-) m2
    AddSub(MoneyLit, bool, MoneyLit),
    /// m (*|/) n
    Scale(MoneyLit, bool, NumLit),
    /// m1 / m2
    Ratio(MoneyLit, MoneyLit),
}

#[derive(Clone, Debug, Serialize, Deserialize)]
pub struct Case {
    pub shape: Shape,
    pub seps: usize,
    /// 1 / 2: the first / second amount of money is ALSO held in a name bound on an earlier line (same value expected)
    #[serde(default)]
    pub via: u8,
}

pub const CONNECTIVES: [&str; 5] = ["", "to", "in", "into", "as"];

pub fn shape_line(s: &Shape) -> Line {
    match s {
        Shape::Literal(m) => Line::new(vec![m.tok()]),
        Shape::Convert(m, conn, target, cp, bits) => {
            let mut v = vec![m.tok()];
            let c = CONNECTIVES[*conn as usize % 5];
            if !c.is_empty() {
                v.push(Tok::word(c, Class::Conn));
            }
            v.push(Tok::word(&recase(target, *cp, *bits), Class::Currency));
            Line::new(v)
        }
        Shape::AddSub(a, plus, b) => Line::new(vec![a.tok(), Tok::op(if *plus { '+' } else { '-' }), b.tok()]),
        Shape::Scale(a, mul, n) => Line::new(vec![a.tok(), Tok::op(if *mul { '*' } else { '/' }), Tok::num(n.clone())]),
        Shape::Ratio(a, b) => Line::new(vec![a.tok(), Tok::op('/'), b.tok()]),
    }
}

/// resolve a currency word the way the documentation describes: alias first, then code
pub fn resolve_currency(word: &str) -> Option<String> {
    let v = vocab();
    let lw = word.to_lowercase();
    if let Some(t) = v.currency_alias.get(&lw) {
        return Some(t.clone());
    }
    if v.all_currency_keys.contains(&lw) {
        return Some(lw);
    }
    None
}

/// the rate model
#[derive(Clone, Debug)]
pub struct Rates(pub BTreeMap<String, f64>);
impl Rates {
    pub fn from_config() -> Rates {
        Rates(vocab().rated.iter().map(|c| (c.key.clone(), c.rate)).collect())
    }
    pub fn convert(&self, amount: f64, from: &str, to: &str) -> Option<f64> {
        let rf = self.0.get(from)?;
        let rt = self.0.get(to)?;
        let usd = amount / rf;
        let usd = if usd.is_finite() { usd } else { 0.0 };
        Some(usd * rt)
    }
}

pub enum Expect {
    Money(f64, String),
    Number(f64),
}

/// magnitude of the operands of a sum/difference (tolerance scale when the result cancels)
pub fn operand_scale(s: &Shape, rates: &Rates) -> f64 {
    match s {
        Shape::AddSub(a, _, b) => a.value().abs().max(rates.convert(b.value(), &b.cur, &a.cur).unwrap_or(0.0).abs()),
        _ => 0.0,
    }
}

pub fn expect_shape(s: &Shape, rates: &Rates) -> Option<Expect> {
    Some(match s {
        Shape::Literal(m) => Expect::Money(m.value(), m.code()),
        Shape::Convert(m, _, target, _, _) => {
            let t = resolve_currency(target)?;
            Expect::Money(rates.convert(m.value(), &m.cur, &t)?, t.to_uppercase())
        }
        Shape::AddSub(a, plus, b) => {
            let r = rates.convert(b.value(), &b.cur, &a.cur)?;
            Expect::Money(if *plus { a.value() + r } else { a.value() - r }, a.code())
        }
        Shape::Scale(a, mul, n) => {
            let v = if *mul {
                a.value() * n.value()
            } else {
                let q = a.value() / n.value();
                if q.is_finite() {
                    q
                } else {
                    0.0
                }
            };
            Expect::Money(v, a.code())
        }
        Shape::Ratio(a, b) => {
            let r = rates.convert(b.value(), &b.cur, &a.cur)?;
            let q = a.value() / r;
            Expect::Number(if q.is_finite() { q } else { 0.0 })
        }
    })
}

pub fn compare(slot: &Slot, exp: &Expect) -> Result<(), String> {
    compare_scaled(slot, exp, 0.0)
}

pub fn compare_scaled(slot: &Slot, exp: &Expect, scale: f64) -> Result<(), String> {
    match (slot, exp) {
        (Slot::Ok { v: V::Money(a, c), .. }, Expect::Money(ea, ec)) => {
            if c != ec {
                Err(format!("expected currency {} got {}", ec, c))
            } else if !crate::common::close_scaled(*a, *ea, scale) {
                Err(format!("expected {} {} got {} {}", ea, ec, a, c))
            } else {
                Ok(())
            }
        }
        (Slot::Ok { v: V::Num(a, NT::Decimal), .. }, Expect::Number(e)) => {
            if close(*a, *e) {
                Ok(())
            } else {
                Err(format!("expected number {} got {}", e, a))
            }
        }
        (s, Expect::Money(ea, ec)) => Err(format!("expected Money({}, {}) got {}", ea, ec, s.brief())),
        (s, Expect::Number(e)) => Err(format!("expected Number({}) got {}", e, s.brief())),
    }
}

pub struct MoneyProp;

/// F51: a money literal written `<amount><suffix> <symbol>` (or `<amount><suffix> <code>` where the
/// code is also a zone name) yields a token that ends before the currency; the currency is lexed
/// again (as an operator / zone) and the rest of the line is dropped. Pinned by test convert_money_6.
fn classify_known(shape: &Shape, slot: &Slot) -> Option<&'static str> {
    let first = match shape {
        Shape::Literal(m) | Shape::Convert(m, ..) | Shape::AddSub(m, ..) | Shape::Scale(m, ..) | Shape::Ratio(m, _) => m,
    };
    if first.suffix.is_none() {
        return None;
    }
    match (&first.spelling, slot) {
        // failure shape: the result is exactly the first literal, everything after it was dropped
        (Spelling::SymAfter(_), Slot::Ok { v: V::Money(a, c), .. }) if *c == first.code() && close(*a, first.value()) => Some("F51"),
        (Spelling::CodeAfter(..), Slot::Err(e)) if e == "No more token" && vocab().zones.contains_key(&first.cur.to_uppercase()) => Some("F51"),
        _ => None,
    }
}

impl Prop for MoneyProp {
    type Case = Case;
    fn name(&self) -> &'static str {
        "money"
    }
    fn check(&self, w: &mut Worker, c: &Case) -> Verdict {
        let (dec, thou) = READ_SEPS[c.seps % 4];
        let cfg = Cfg::seps(dec, thou);
        let line = shape_line(&c.shape).render(dec, thou);
        let rendered = format!("[{}] {}", cfg.label(), line);
        let rates = Rates::from_config();
        let exp = match expect_shape(&c.shape, &rates) {
            Some(e) => e,
            None => return Verdict::skip("currency without a rate / unknown target", rendered),
        };
        let slot = match w.eval1(&cfg, "en", &line) {
            Ok(s) => s,
            Err(e) => return Verdict::fail(e, rendered),
        };
        let mut acc = Acc::new();
        if let Err(e) = compare_scaled(&slot, &exp, operand_scale(&c.shape, &rates)) {
            acc.fail_kf(e, classify_known(&c.shape, &slot));
        }
        let (nt, class): (bool, &'static str) = match &c.shape {
            Shape::Literal(_) => (false, "literal"),
            Shape::Convert(m, _, t, _, _) => (resolve_currency(t).map_or(false, |t| t != m.cur), "conversion"),
            Shape::AddSub(a, _, b) => (a.cur != b.cur, "add-sub"),
            Shape::Scale(..) => (true, "scale"),
            Shape::Ratio(a, b) => (a.cur != b.cur, "ratio"),
        };
        // metamorphic: an amount of money held in a name bound on an earlier line is that amount
        let mut via_checked = false;
        if acc.ok() && c.via != 0 && matches!(slot, Slot::Ok { .. }) && !matches!(c.shape, Shape::Literal(_)) {
            let whole = shape_line(&c.shape);
            let (from, to) = match (&c.shape, c.via) {
                (Shape::AddSub(..), 2) | (Shape::Ratio(..), 2) => (2, 3),
                _ => (0, 1),
            };
            let text2 = whole.via_variable(from, to, if c.via == 1 { "fee" } else { "net price" }, dec, thou);
            match w.eval(&cfg, "en", &text2) {
                Ok(o) if o.slots.len() == 2 => {
                    via_checked = true;
                    if !o.slots[1].same(&slot) {
                        // (the one-line form may be the known finding F51 hidden inside the tolerance of the main comparison)
                        acc.fail_kf(format!("{:?} gives {} but with the amount held in a name ({:?}) it gives {}", line, slot.brief(), text2, o.slots[1].brief()), classify_known(&c.shape, &slot));
                    }
                }
                Ok(o) => acc.fail(format!("{} slots for the two lines {:?}", o.slots.len(), text2)),
                Err(p) => acc.fail(format!("{:?}: panic at {}: {}", text2, p.site, p.message)),
            }
        }
        let lit = match &c.shape {
            Shape::Literal(m) | Shape::Convert(m, ..) | Shape::AddSub(m, ..) | Shape::Scale(m, ..) | Shape::Ratio(m, _) => m,
        };
        let sp: &'static str = match lit.spelling {
            Spelling::SymBefore => "spelling:symbol-before",
            Spelling::SymAfter(_) => "spelling:symbol-after",
            Spelling::CodeAfter(..) => "spelling:code-after",
            Spelling::AliasAfter(..) => "spelling:alias-after",
        };
        acc.finish(rendered).nt(nt || matches!(c.shape, Shape::Literal(_)) && (lit.suffix.is_some() || lit.amount.has_fraction())).class(class).class(sp).class_if(lit.suffix.is_some(), "has-suffix").class_if(c.seps != 0, "non-default-separators").class_if(via_checked, "amount-also-via-a-variable")
    }
}

// ---- strategies --------------------------------------------------------------------------------

pub fn amount_strategy() -> impl Strategy<Value = NumLit> {
    let v = prop_oneof![
        4 => (0u32..=1000).prop_map(|v| v as f64),
        3 => (0u32..=99_999_999).prop_map(|v| v as f64 / 100.0),
        2 => (0u64..=999_999_999_999u64).prop_map(|v| v as f64),
        2 => (0u32..=9_999_999, 1u32..=6).prop_map(|(n, d)| format!("{}.{:0width$}", n / 10u32.pow(d), n % 10u32.pow(d), width = d as usize).parse::<f64>().unwrap()),
        1 => prop_oneof![Just(0.0), Just(0.000001), Just(1e12), Just(0.5)],
    ];
    (v, prop_oneof![6 => Just(0u8), 2 => Just(1u8), 1 => Just(2u8)], any::<bool>()).prop_map(|(v, sign, group)| NumLit { v, sign, group })
}

pub fn rated_key() -> impl Strategy<Value = String> {
    let keys: Vec<String> = vocab().rated.iter().map(|c| c.key.clone()).collect();
    prop::sample::select(keys)
}

pub fn spelling_strategy() -> impl Strategy<Value = Spelling> {
    prop_oneof![
        2 => Just(Spelling::SymBefore),
        2 => (0u8..=2).prop_map(Spelling::SymAfter),
        4 => (0u8..=2, 0u8..5, any::<u32>()).prop_map(|(s, c, b)| Spelling::CodeAfter(s, c, b)),
        2 => (1u8..=2, 0u8..5, any::<u32>()).prop_map(|(s, c, b)| Spelling::AliasAfter(String::new(), s, c, b)),
    ]
}

pub fn money_lit(cur: impl Strategy<Value = String>) -> impl Strategy<Value = MoneyLit> {
    (amount_strategy(), prop_oneof![8 => Just(None), 1 => Just(Some('k')), 1 => Just(Some('M')), 1 => Just(Some('K'))], cur, spelling_strategy(), any::<u32>()).prop_map(|(amount, suffix, cur, spelling, pick)| {
        let spelling = match spelling {
            Spelling::AliasAfter(_, s, c, b) => {
                let al = latin_aliases_of(&cur);
                if al.is_empty() {
                    Spelling::CodeAfter(s, c, b)
                } else {
                    Spelling::AliasAfter(al[monotone_index(pick, al.len())].clone(), s, c, b)
                }
            }
            other => other,
        };
        let amount = if suffix.is_some() && amount.v > 1e6 { NumLit { v: (amount.v % 1000.0).floor(), ..amount } } else { amount };
        MoneyLit { amount, suffix, cur, spelling }.normalise()
    })
}

pub fn target_words(cur: &str) -> Vec<String> {
    // code plus the Latin aliases; words that the zone lexer would claim are left out
    let v = vocab();
    let mut out = vec![cur.to_string()];
    out.extend(latin_aliases_of(cur));
    out.retain(|w| !(w.len() <= 4 && v.zones.contains_key(&w.to_uppercase())));
    out
}

pub fn shape_strategy() -> impl Strategy<Value = Shape> {
    let lit = || money_lit(rated_key());
    let num = prop_oneof![3 => (0u32..=1000).prop_map(|v| v as f64), 2 => (1u32..=99_999).prop_map(|v| v as f64 / 100.0), 1 => Just(0.0)].prop_map(|v| NumLit { v, sign: 0, group: false });
    prop_oneof![
        2 => lit().prop_map(Shape::Literal),
        5 => (lit(), 0u8..5, rated_key(), any::<u32>(), 0u8..5, any::<u32>()).prop_map(|(m, conn, t, pick, cp, bits)| {
            let words = target_words(&t);
            let w = if words.is_empty() { t.clone() } else { words[monotone_index(pick, words.len())].clone() };
            Shape::Convert(m, conn, w, cp, bits)
        }),
        3 => (lit(), any::<bool>(), lit()).prop_map(|(a, p, b)| Shape::AddSub(a, p, b)),
        2 => (lit(), any::<bool>(), num).prop_map(|(a, m, n)| Shape::Scale(a, m, n)),
        2 => (lit(), lit()).prop_map(|(a, b)| Shape::Ratio(a, b)),
    ]
}

pub fn case_strategy() -> impl Strategy<Value = Case> {
    (shape_strategy(), prop_oneof![3 => Just(0usize), 1 => 1usize..4], prop_oneof![3 => Just(0u8), 1 => 1u8..3]).prop_map(|(shape, seps, via)| Case { shape, seps, via })
}

pub fn plain_lit(v: f64, cur: &str) -> MoneyLit {
    MoneyLit { amount: NumLit { v, sign: 0, group: false }, suffix: None, cur: cur.to_string(), spelling: Spelling::CodeAfter(1, 0, 0) }
}

/// all ordered pairs of rated currencies (incl. identities) x two amounts, connective rotating
pub fn pair_table() -> Vec<Case> {
    let v = vocab();
    let mut out = vec![];
    let mut k = 0u8;
    for a in &v.rated {
        for b in &v.rated {
            for amount in [100.0, 12345.67] {
                k = (k + 1) % 5;
                out.push(Case { shape: Shape::Convert(plain_lit(amount, &a.key), k, b.key.clone(), 0, 0), seps: 0, via: 0 });
            }
            out.push(Case { shape: Shape::AddSub(plain_lit(250.0, &a.key), k % 2 == 0, plain_lit(75.5, &b.key)), seps: 0, via: 0 });
            out.push(Case { shape: Shape::Ratio(plain_lit(250.0, &a.key), plain_lit(75.5, &b.key)), seps: 0, via: 0 });
        }
    }
    out
}

/// every configured currency code as a literal (rated or not), every spelling for the aliased ones
pub fn literal_table() -> Vec<Case> {
    let v = vocab();
    let mut out = vec![];
    for key in v.all_currency_keys.iter() {
        for (sp, cp) in [(1u8, 0u8), (0, 1), (2, 3)] {
            out.push(Case { shape: Shape::Literal(MoneyLit { amount: NumLit { v: 1234.5, sign: 0, group: false }, suffix: None, cur: key.clone(), spelling: Spelling::CodeAfter(sp, cp, 0) }), seps: 0, via: 0 });
        }
        out.push(Case { shape: Shape::Literal(MoneyLit { amount: NumLit { v: 1.5, sign: 1, group: false }, suffix: Some('k'), cur: key.clone(), spelling: Spelling::CodeAfter(1, 0, 0) }), seps: 0, via: 0 });
        if symbol_alias_of(key).is_some() {
            for sp in [Spelling::SymBefore, Spelling::SymAfter(0), Spelling::SymAfter(1), Spelling::SymAfter(2)] {
                for suffix in [None, Some('k'), Some('M')] {
                    out.push(Case { shape: Shape::Literal(MoneyLit { amount: NumLit { v: 2.25, sign: 0, group: false }, suffix, cur: key.clone(), spelling: sp.clone() }.normalise()), seps: 0, via: 0 });
                }
            }
        }
        for a in latin_aliases_of(key) {
            for cp in 0..4u8 {
                out.push(Case { shape: Shape::Literal(MoneyLit { amount: NumLit { v: 99.0, sign: 0, group: false }, suffix: None, cur: key.clone(), spelling: Spelling::AliasAfter(a.clone(), 1, cp, 0) }), seps: 0, via: 0 });
            }
        }
    }
    out
}

// ---- rate-update histories ---------------------------------------------------------------------

#[derive(Clone, Debug, Serialize, Deserialize)]
pub enum HOp {
    /// update_currency(name, rate)
    Update(String, f64),
    /// update_currency(name, current rate of that currency * (1 + k * 1e-6)): a small move of the rate is a move
    Nudge(String, i8),
    /// evaluate a shape
    Eval(Shape),
}

#[derive(Clone, Debug, Serialize, Deserialize)]
pub struct History {
    pub ops: Vec<HOp>,
}

pub struct RateHistory;

pub fn panel() -> Vec<Shape> {
    vec![
        Shape::Convert(plain_lit(100.0, "usd"), 1, "try".into(), 0, 0),
        Shape::Convert(plain_lit(100.0, "try"), 1, "eur".into(), 0, 0),
        Shape::Convert(plain_lit(100.0, "eur"), 2, "usd".into(), 0, 0),
        Shape::Convert(plain_lit(100.0, "gbp"), 3, "jpy".into(), 0, 0),
        Shape::Convert(plain_lit(100.0, "sek"), 4, "dkk".into(), 0, 0),
        Shape::AddSub(plain_lit(10.0, "usd"), true, plain_lit(10.0, "eur")),
        Shape::AddSub(plain_lit(10.0, "try"), false, plain_lit(1.0, "gbp")),
        Shape::Ratio(plain_lit(10.0, "jpy"), plain_lit(1.0, "bgn")),
    ]
}

impl Prop for RateHistory {
    type Case = History;
    fn shrink_iters(&self) -> u32 {
        300
    }
    fn name(&self) -> &'static str {
        "rate-history"
    }
    fn check(&self, w: &mut Worker, h: &History) -> Verdict {
        let cfg = Cfg::default();
        let mut calc = build_calc(&cfg);
        let mut rates = Rates::from_config();
        let mut rendered = String::new();
        let mut acc = Acc::new();
        let mut updates = 0;
        let mut touched_then_used = false;
        let mut last_updated: Option<String> = None;
        for op in &h.ops {
            // a nudge is an update whose rate is computed from the model's current rate
            let nudged;
            let op = match op {
                HOp::Nudge(name, k) => {
                    let cur = resolve_currency(name).and_then(|key| rates.0.get(&key).copied()).unwrap_or(1.0);
                    let k = if *k == 0 { 1 } else { *k };
                    nudged = HOp::Update(name.clone(), cur * (1.0 + k as f64 * 1e-6));
                    &nudged
                }
                other => other,
            };
            match op {
                HOp::Nudge(..) => unreachable!(),
                HOp::Update(name, rate) => {
                    rendered.push_str(&format!("update_currency({:?}, {}); ", name, rate));
                    let got = match crate::engine::guarded(|| calc.update_currency(name, *rate)) {
                        Ok(b) => b,
                        Err(p) => {
                            acc.fail(format!("update_currency panicked at {}: {}", p.site, p.message));
                            break;
                        }
                    };
                    let resolved = resolve_currency(name);
                    if got != resolved.is_some() {
                        acc.fail(format!("update_currency({:?}) returned {} but the name {} resolve", name, got, if resolved.is_some() { "does" } else { "does not" }));
                        break;
                    }
                    if let Some(k) = resolved {
                        rates.0.insert(k.clone(), *rate);
                        last_updated = Some(k);
                        updates += 1;
                    }
                    // after every update: the fixed panel must follow the model (exactly the affected pairs change)
                    for s in panel() {
                        let line = shape_line(&s).render(",", ".");
                        w.count_eval(1);
                        let out = match eval_on(&calc, "en", &line) {
                            Ok(o) => o,
                            Err(p) => {
                                acc.fail(format!("panic at {}: {}", p.site, p.message));
                                break;
                            }
                        };
                        if let Some(exp) = expect_shape(&s, &rates) {
                            if let Err(e) = compare_scaled(&out.slots[0], &exp, operand_scale(&s, &rates)) {
                                acc.fail(format!("panel line {:?} after the update: {}", line, e));
                                break;
                            }
                        }
                    }
                }
                HOp::Eval(s) => {
                    let line = shape_line(s).render(",", ".");
                    rendered.push_str(&format!("{:?}; ", line));
                    w.count_eval(1);
                    let out = match eval_on(&calc, "en", &line) {
                        Ok(o) => o,
                        Err(p) => {
                            acc.fail(format!("panic at {}: {}", p.site, p.message));
                            break;
                        }
                    };
                    if out.slots.len() != 1 {
                        acc.fail(format!("{} slots", out.slots.len()));
                        break;
                    }
                    if let Some(exp) = expect_shape(s, &rates) {
                        if let Err(e) = compare_scaled(&out.slots[0], &exp, operand_scale(s, &rates)) {
                            acc.fail(format!("line {:?}: {}", line, e));
                            break;
                        }
                        if let (Some(u), Shape::Convert(m, _, t, _, _)) = (&last_updated, s) {
                            if &m.cur == u || resolve_currency(t).as_ref() == Some(u) {
                                touched_then_used = true;
                            }
                        }
                    }
                }
            }
            if !acc.ok() {
                break;
            }
        }
        acc.finish(rendered).nt(updates >= 1 && touched_then_used).class_if(updates >= 2, "two-or-more-updates").class_if(touched_then_used, "updated-currency-used-afterwards")
    }
}

pub fn history_strategy() -> impl Strategy<Value = History> {
    let names: Vec<String> = {
        let v = vocab();
        let mut n: Vec<String> = vec!["usd", "USD", "try", "Try", "eur", "EUR", "gbp", "jpy", "sek", "dkk", "bgn", "tl", "dollar", "euro", "kr", "kroner", "leva", "$", "€", "₺", "aed", "AED", "aed", "cad", "cad", "CAD", "zzz", "", "kg", "usdx", "us", "лв"].iter().map(|s| s.to_string()).collect();
        n.extend(v.rated.iter().map(|c| c.key.clone()));
        n
    };
    let rate = prop_oneof![3 => (1u32..=2_000_000).prop_map(|v| v as f64 / 1000.0), 1 => prop_oneof![Just(1.0), Just(0.0001), Just(123456.789)]];
    let eval_shape = prop_oneof![
        // aed and cad have no rate in the shipped table: conversions with them are asserted once an update gave them one
        3 => (prop::sample::select(vec!["usd", "try", "eur", "gbp", "jpy", "sek", "dkk", "bgn", "aed", "cad"]), 1u8..5, prop::sample::select(vec!["usd", "try", "eur", "gbp", "jpy", "sek", "dkk", "bgn", "tl", "dollar", "aed", "cad"]), 1u32..100_000).prop_map(|(a, c, b, amt)| Shape::Convert(plain_lit(amt as f64 / 10.0, a), c, b.to_string(), 0, 0)),
        1 => (prop::sample::select(vec!["usd", "try", "eur", "gbp"]), any::<bool>(), prop::sample::select(vec!["usd", "try", "eur", "jpy"])).prop_map(|(a, p, b)| Shape::AddSub(plain_lit(10.0, a), p, plain_lit(3.0, b))),
    ];
    let nudge_names = prop::sample::select(vec!["usd", "try", "eur", "gbp", "jpy", "sek", "dkk", "bgn"]).prop_map(|s| s.to_string());
    let op = prop_oneof![4 => (prop::sample::select(names), rate).prop_map(|(n, r)| HOp::Update(n, r)), 1 => (nudge_names, any::<i8>()).prop_map(|(n, k)| HOp::Nudge(n, k)), 6 => eval_shape.prop_map(HOp::Eval)];
    prop::collection::vec(op, 1..10).prop_map(|ops| History { ops })
}

// ---- a conversion inside a sum, the converted amount possibly held in a variable ------------------------------

/// `m1 +- m2 conn C3` (the conversion phrase binds to the amount next to it, then the sum is taken in m1's currency), and the
/// same line with m2 held in a name bound on an earlier line: both give a1 +- a2·rate(c1)/rate(c2) in c1
#[derive(Clone, Debug, Serialize, Deserialize)]
pub struct SumConv {
    pub a: u32,
    pub c1: String,
    pub plus: bool,
    pub b: u32,
    pub c2: String,
    pub c3: String,
    /// connective 1 to, 2 in, 3 into, 4 as
    pub conn: u8,
    pub via_var: bool,
}

pub struct SumWithConversion;

impl Prop for SumWithConversion {
    type Case = SumConv;
    fn name(&self) -> &'static str {
        "conversion-inside-a-sum"
    }
    fn check(&self, w: &mut Worker, c: &SumConv) -> Verdict {
        let cfg = Cfg::default();
        let rates = Rates::from_config();
        let (a, b) = (c.a as f64 / 100.0, c.b as f64 / 100.0);
        let m1 = plain_lit(a, &c.c1).tok().text(",", ".");
        let m2 = plain_lit(b, &c.c2).tok().text(",", ".");
        let conn = CONNECTIVES[1 + (c.conn as usize % 4)];
        let head = format!("{} {}", m1, if c.plus { '+' } else { '-' });
        let text = if c.via_var { format!("net fee = {}\n{} net fee {} {}", m2, head, conn, c.c3) } else { format!("{} {} {} {}", head, m2, conn, c.c3) };
        let rendered = text.replace('\n', " ; ");
        let out = match w.eval(&cfg, "en", &text) {
            Ok(o) => o,
            Err(p) => return Verdict::fail(format!("panic at {}: {}", p.site, p.message), rendered),
        };
        let r = match rates.convert(b, &c.c2, &c.c1) {
            Some(r) => r,
            None => return Verdict::skip("currency without a rate", rendered),
        };
        let exp = if c.plus { a + r } else { a - r };
        let mut acc = Acc::new();
        if let Err(e) = compare_scaled(out.slots.last().unwrap_or(&Slot::Nothing), &Expect::Money(exp, c.c1.to_uppercase()), a.abs().max(r.abs())) {
            acc.fail(e);
        }
        acc.finish(rendered).nt(c.c1 != c.c2).class("conversion-inside-a-sum").class_if(c.via_var, "converted-amount-held-in-a-variable")
    }
}

pub fn sumconv_strategy() -> impl Strategy<Value = SumConv> {
    (1u32..=500_000, rated_key(), any::<bool>(), 1u32..=500_000, rated_key(), rated_key(), 0u8..4, any::<bool>()).prop_map(|(a, c1, plus, b, c2, c3, conn, via_var)| SumConv { a, c1, plus, b, c2, c3, conn, via_var })
}

pub fn run(ctx: &Ctx) {
    ctx.rule("literals: every configured currency code (161) x spacing x case, symbol-before/after and Latin aliases where configured, k/M suffix, signs, grouping; conversion: ALL ordered pairs of the 32 rated currencies incl. identities (exhaustive table) plus generated amounts/spellings/connectives (to|in|into|as|none)/target spelled as code or alias in any case; arithmetic m1+-m2, m*n, m/n, m1/m2; histories of update_currency (code, alias, symbol, unknown names) interleaved with evaluations on a fresh calculator, a fixed panel of 8 lines re-checked after every update; a conversion applied to the second amount of a sum ('m1 +- m2 in C3', m2 also held in a name: expected a1 +- a2 converted into m1's currency); metamorphic step (a quarter of the cases): the first or second amount also held in a name bound on an earlier line - the line must give the literal line's value; oracle = rate table model initialised from config.json currency_rates; non-trivial = conversion/arith between two DIFFERENT currencies, scaling, literals with suffix or fraction, histories where an updated currency is used afterwards");
    ctx.assume("'code before amount' (usd 10) is not a supported spelling and is not generated; the target of a conversion is a word, not a symbol");
    ctx.assume("identity and ratios are compared with relative tolerance 1e-9 (the library divides by rate(A) and multiplies by rate(B))");
    ctx.run_table(&MoneyProp, "all-literal-spellings", literal_table(), true);
    ctx.run_table(&MoneyProp, "all-rated-pairs", pair_table(), true);
    ctx.run_generated(&MoneyProp, ctx.tier.pick(60_000, 600_000), case_strategy);
    ctx.run_generated(&RateHistory, ctx.tier.pick(1_500, 20_000), history_strategy);
    // a conversion applied to the second amount of a sum (also held in a name): m1 +- m2 in C3
    ctx.run_generated(&SumWithConversion, ctx.tier.pick(6_000, 60_000), sumconv_strategy);
}

pub fn replay(w: &mut Worker, sub: &str, case: &serde_json::Value) -> Option<Verdict> {
    match sub {
        "money" => crate::engine::replay_case(&MoneyProp, w, case),
        "rate-history" => crate::engine::replay_case(&RateHistory, w, case),
        "conversion-inside-a-sum" => crate::engine::replay_case(&SumWithConversion, w, case),
        _ => None,
    }
}
