//! C19 — every configured language is a relabelling of the same calculator.

use crate::common::{Cfg, Slot, V};
use crate::engine::{monotone_index, Acc, Ctx, Prop, Verdict, Worker};
use crate::lines::{Class, Line, NumLit, Tok};
use crate::vocab::vocab;
use crate::c11::TimeLit;
use proptest::prelude::*;
use serde::{Deserialize, Serialize};

/// operator words per language. For the two shipped languages the table is the one the property states
/// (independent of the configuration under test: a word mapped to the wrong operator must not be believed);
/// for any further language it is read from that language's alias table (alias -> "[OPERATOR:x]").
pub fn op_words(lang: &str, op: char) -> Vec<String> {
    let fixed: Option<&[&str]> = match (lang, op) {
        ("en", '*') => Some(&["times", "multiply"]),
        ("en", '+') => Some(&["add", "sum", "append"]),
        ("en", '-') => Some(&["minus", "exclude"]),
        ("tr", '*') => Some(&["çarpı", "carpi", "kere", "çarp", "carp"]),
        ("tr", '+') => Some(&["ekle", "topla", "toplam"]),
        ("tr", '-') => Some(&["eksi", "çıkar", "cikar", "çıkart", "cikart"]),
        ("en", _) | ("tr", _) => Some(&[]),
        _ => None,
    };
    if let Some(f) = fixed {
        return f.iter().map(|s| s.to_string()).collect();
    }
    let target = format!("[OPERATOR:{}]", op);
    vocab().langs.get(lang).map(|l| l.alias.iter().filter(|(_, t)| **t == target).map(|(a, _)| a.clone()).collect()).unwrap_or_default()
}

#[derive(Clone, Debug, Serialize, Deserialize)]
pub enum Operand {
    Num(NumLit),
    /// money literal `<amount> <code>`
    Money(NumLit, String),
    /// `<count> <duration unit>`: (count, unit index 0..7, spelling pick)
    Dur(u32, u8, u8),
}

#[derive(Clone, Debug, Serialize, Deserialize)]
pub enum Shape {
    /// a <operator word> b : (a, op char, word pick, b)
    OpWord(Operand, char, u32, Operand),
    /// a C10 duration case (rendered in each language with that language's unit words)
    Durations(crate::c10::Case),
    /// a C09 date case (month names, day keywords, date +- duration, differences)
    Dates(crate::c09::Case),
    /// a line without language-dependent words: the same text in every language
    WordFree(crate::mixed::GenLine),
    /// values held in names (of one or several words) by earlier lines and used side by side on the last line
    Program(Prog),
}

/// names of one and of several words; none is a word of either language
pub const PROG_NAMES: [&str; 8] = ["kalkış", "varış", "ilk tarih", "son tarih", "vardiya başı", "vardiya sonu", "alpha mark", "omega mark"];

#[derive(Clone, Debug, Serialize, Deserialize)]
pub enum Prog {
    /// durations held in names, the names written in a row: their sum (`a b c` = `a + b + c`)
    Row(Vec<(u8, Vec<crate::c10::Part>)>),
    /// two dates held in names: `A to B` <-> `A B arası`
    DateRange((u8, crate::c09::DateLit), (u8, crate::c09::DateLit)),
    /// two times held in names: `A to B` <-> `A B arası`
    TimeRange((u8, TimeLit), (u8, TimeLit)),
    /// written durations followed by a range of two times: `2 hours 5 minutes 11:30 to 13:45`
    DurThenRange(Vec<crate::c10::Part>, TimeLit, TimeLit),
    /// an amount per unit word, inside arithmetic: `25/hour * 14` <-> `25/saat * 14` (n, percent?, unit 0..7, factor)
    PerWord(u32, bool, u8, u32),
    /// a date directly followed by a written duration, no operator in between (`12 march 3 days`): (date, count, unit
    /// 0 day 1 week 2 month 3 year, spelling)
    DateThenDur(crate::c09::DateLit, u32, u8, u8),
}

fn name_toks(i: u8) -> Vec<Tok> {
    PROG_NAMES[i as usize % PROG_NAMES.len()].split(' ').map(|w| Tok::word(w, Class::Var)).collect()
}

fn def_line(name: u8, value: Vec<Tok>) -> Line {
    let mut l = Line::default();
    for t in name_toks(name) {
        l.push(t);
    }
    l.push(Tok::op('='));
    for t in value {
        l.push(t);
    }
    l
}

fn range_line(a: Vec<Tok>, b: Vec<Tok>, lang: &str, head: Vec<Tok>) -> Line {
    let mut l = Line::default();
    for t in head.into_iter().chain(a) {
        l.push(t);
    }
    if lang == "tr" {
        for t in b {
            l.push(t);
        }
        l.push(Tok::word("arası", Class::Keyword));
    } else {
        l.push(Tok::word("to", Class::Conn));
        for t in b {
            l.push(t);
        }
    }
    l
}

impl Prog {
    /// the lines of the program in `lang`; `direct`: the reference form of the last line alone, without names
    /// (`a + b + c`, the range between the literals)
    pub fn lines(&self, lang: &str, direct: bool) -> Vec<Line> {
        let parts = |ps: &Vec<crate::c10::Part>| -> Vec<Tok> { ps.iter().flat_map(|p| p.toks(lang)).collect() };
        match self {
            Prog::Row(defs) => {
                let mut out: Vec<Line> = defs.iter().map(|(n, ps)| def_line(*n, parts(ps))).collect();
                let mut l = Line::default();
                for (k, (n, _)) in defs.iter().enumerate() {
                    if direct && k > 0 {
                        l.push(Tok::op('+'));
                    }
                    for t in name_toks(*n) {
                        l.push(t);
                    }
                }
                out.push(l);
                out
            }
            Prog::DateRange((na, a), (nb, b)) => {
                if direct {
                    return vec![range_line(a.toks(lang), b.toks(lang), lang, vec![])];
                }
                vec![def_line(*na, a.toks(lang)), def_line(*nb, b.toks(lang)), range_line(name_toks(*na), name_toks(*nb), lang, vec![])]
            }
            Prog::TimeRange((na, a), (nb, b)) => {
                if direct {
                    return vec![range_line(vec![a.tok()], vec![b.tok()], lang, vec![])];
                }
                vec![def_line(*na, vec![a.tok()]), def_line(*nb, vec![b.tok()]), range_line(name_toks(*na), name_toks(*nb), lang, vec![])]
            }
            Prog::DurThenRange(ps, a, b) => vec![range_line(vec![a.tok()], vec![b.tok()], lang, parts(ps))],
            Prog::PerWord(n, pct, unit, m) => {
                let sp = crate::c10::spellings(lang, *unit % 7);
                let word = sp[0];
                let mut l = Line::default();
                let head = if *pct { format!("{}%/{}", n, word) } else { format!("{}/{}", n, word) };
                l.push(Tok { pre: head, num: None, post: String::new(), class: Class::Other, space: 0 });
                if !*pct || direct {
                    l.push(Tok::op('*'));
                    l.push(Tok::num(NumLit { v: *m as f64, sign: 0, group: false }));
                }
                vec![l]
            }
            Prog::DateThenDur(d, n, u, sp) => {
                let unit = [crate::c09::Unit::Days, crate::c09::Unit::Weeks, crate::c09::Unit::Months, crate::c09::Unit::Years][*u as usize % 4];
                let mut l = Line::default();
                for t in d.toks(lang) {
                    l.push(t);
                }
                // `direct`: the same with the operator written out
                if direct {
                    l.push(Tok::op('+'));
                }
                l.push(Tok::num(NumLit { v: *n as f64, sign: 0, group: false }));
                l.push(Tok::word(crate::c09::unit_word(lang, unit, *sp), Class::DurWord));
                vec![l]
            }
        }
    }
}

#[derive(Clone, Debug, Serialize, Deserialize)]
pub struct Case {
    pub shape: Shape,
    /// letter case of an (ASCII) operator word: 0 as configured, 1 upper case, 2 capitalised
    #[serde(default)]
    pub wcase: u8,
}

fn operand_toks(o: &Operand, lang: &str) -> Vec<Tok> {
    match o {
        Operand::Num(n) => vec![Tok::num(n.clone())],
        Operand::Money(a, code) => vec![Tok::with("", a.clone(), &format!(" {}", code), Class::Money)],
        Operand::Dur(n, u, sp) => crate::c10::Part { count: *n, unit: *u, spelling: *sp, group: false }.toks(lang),
    }
}

/// `a <operator word> b` as a token line in `lang` (None when the language has no word for the operator)
pub fn opword_line(a: &Operand, op: char, pick: u32, b: &Operand, lang: &str) -> Option<Line> {
    opword_line_cased(a, op, pick, b, lang, 0)
}

pub fn opword_line_cased(a: &Operand, op: char, pick: u32, b: &Operand, lang: &str, wcase: u8) -> Option<Line> {
    let words = op_words(lang, op);
    if words.is_empty() {
        return None;
    }
    let mut l = Line::default();
    for t in operand_toks(a, lang) {
        l.push(t);
    }
    let word = &words[monotone_index(pick, words.len())];
    // keywords are case-insensitive; only words of ASCII letters are re-cased (I/ı and İ/i do not map one-to-one)
    let word = if word.is_ascii() { crate::lines::recase(word, match wcase % 3 { 0 => 0, 1 => 1, _ => 3 }, 0) } else { word.clone() };
    l.push(Tok::word(&word, Class::Keyword));
    for t in operand_toks(b, lang) {
        l.push(t);
    }
    Some(l)
}

/// operator-word sentences for the mixed line generator: (line, language)
pub fn opword_strategy() -> impl Strategy<Value = (Line, String)> {
    (operand_strategy(), prop::sample::select(vec!['*', '+', '-']), any::<u32>(), operand_strategy(), any::<bool>()).prop_filter_map("the language has a word for the operator", |(a, op, p, b, tr)| {
        let lang = if tr { "tr" } else { "en" };
        opword_line(&a, op, p, &b, lang).map(|l| (l, lang.to_string()))
    })
}

/// the text of the case in `lang` (None when the language has no word for a slot)
pub fn render(c: &Case, lang: &str) -> Option<String> {
    match &c.shape {
        Shape::OpWord(a, op, pick, b) => opword_line_cased(a, *op, *pick, b, lang, c.wcase).map(|l| l.render(",", ".")),
        Shape::Durations(d) => {
            let mut d2 = d.clone();
            d2.lang = lang.to_string();
            d2.conv = None;
            Some(crate::c10::case_line(&d2).render(",", "."))
        }
        Shape::Dates(d) => {
            let mut d2 = d.clone();
            d2.lang = lang.to_string();
            Some(crate::c09::case_line(&d2).render(",", "."))
        }
        Shape::WordFree(g) => Some(g.text(",", ".")),
        Shape::Program(p) => Some(p.lines(lang, false).iter().map(|l| l.render(",", ".")).collect::<Vec<_>>().join("\n")),
    }
}

/// compare the printed forms through each language's own word lists
fn outputs_agree(v: &V, en_out: &str, other_lang: &str, other_out: &str) -> Result<(), String> {
    match v {
        V::Dur(..) => {
            let a = crate::c10::parse_printed("en", en_out)?;
            let b = crate::c10::parse_printed(other_lang, other_out).map_err(|e| format!("the {} output {:?} does not use {} unit words: {}", other_lang, other_out, other_lang, e))?;
            if a != b {
                return Err(format!("printed parts differ: en {:?} vs {} {:?}", en_out, other_lang, other_out));
            }
            Ok(())
        }
        V::Date(ce, _, _) => {
            let cy = crate::c09::current_year() as i64;
            crate::c09::check_output("en", en_out, *ce as i64, cy)?;
            crate::c09::check_output(other_lang, other_out, *ce as i64, cy).map_err(|e| format!("{} output: {}", other_lang, e))
        }
        _ => {
            if en_out != other_out {
                return Err(format!("printed forms differ: en {:?} vs {} {:?}", en_out, other_lang, other_out));
            }
            Ok(())
        }
    }
}

pub struct Languages;

impl Prop for Languages {
    type Case = Case;
    fn name(&self) -> &'static str {
        "languages"
    }
    fn check(&self, w: &mut Worker, c: &Case) -> Verdict {
        let cfg = Cfg::default();
        let en_text = match render(c, "en") {
            Some(t) => t,
            None => return Verdict::skip("no English word for the slot", String::new()),
        };
        let today0 = chrono::Utc::now().date_naive();
        let en = match w.eval(&cfg, "en", &en_text) {
            Ok(o) => o,
            Err(p) => return Verdict::fail(format!("panic at {}: {}", p.site, p.message), en_text),
        };
        let mut acc = Acc::new();
        let mut rendered = format!("en {:?}", en_text);
        let mut translated_word = false;
        let mut non_number = false;
        let langs: Vec<String> = vocab().langs.keys().filter(|l| *l != "en").cloned().collect();
        for lang in &langs {
            let text = match render(c, lang) {
                Some(t) => t,
                None => continue,
            };
            if text != en_text {
                translated_word = true;
            }
            rendered.push_str(&format!(" | {} {:?}", lang, text));
            let other = match w.eval(&cfg, lang, &text) {
                Ok(o) => o,
                Err(p) => {
                    acc.fail(format!("[{}] panic at {}: {}", lang, p.site, p.message));
                    break;
                }
            };
            if en.slots.len() != other.slots.len() {
                acc.fail(format!("{} slots in en, {} in {}", en.slots.len(), other.slots.len(), lang));
                break;
            }
            for (i, (a, b)) in en.slots.iter().zip(other.slots.iter()).enumerate() {
                match (a, b) {
                    (Slot::Ok { v: va, out: oa }, Slot::Ok { v: vb, out: ob }) => {
                        if !matches!(va, V::Num(..)) {
                            non_number = true;
                        }
                        if !va.same(vb) {
                            acc.fail(format!("line {}: en gives {} but {} gives {}", i + 1, a.brief(), lang, b.brief()));
                        } else if let Err(e) = outputs_agree(va, oa, lang, ob) {
                            acc.fail(format!("line {}: {}", i + 1, e));
                        }
                    }
                    (Slot::Ok { .. }, _) | (_, Slot::Ok { .. }) => acc.fail(format!("line {}: en gives {} but {} gives {}", i + 1, a.brief(), lang, b.brief())),
                    _ => {}
                }
                if !acc.ok() {
                    break;
                }
            }
            if !acc.ok() {
                if chrono::Utc::now().date_naive() != today0 {
                    return Verdict::skip("date changed during the case", rendered);
                }
                break;
            }
        }
        // a program: the last line gives what the same line gives written without the names (`a + b + c`, the literals)
        if let (true, Shape::Program(p)) = (acc.ok(), &c.shape) {
            if !matches!(p, Prog::DurThenRange(..) | Prog::PerWord(..)) {
                for lang in std::iter::once("en".to_string()).chain(langs.iter().cloned()) {
                    let lines = p.lines(&lang, true);
                    let with_names = p.lines(&lang, false);
                    // `a + b + c` still needs the definitions
                    let direct_text = if matches!(p, Prog::Row(_)) { with_names[..with_names.len() - 1].iter().chain(lines.last()).map(|l| l.render(",", ".")).collect::<Vec<_>>().join("\n") } else { lines[0].render(",", ".") };
                    let prog_text = with_names.iter().map(|l| l.render(",", ".")).collect::<Vec<_>>().join("\n");
                    match (w.eval(&cfg, &lang, &prog_text), w.eval(&cfg, &lang, &direct_text)) {
                        (Ok(a), Ok(b)) => {
                            let (x, y) = (a.slots.last().cloned().unwrap_or(Slot::Nothing), b.slots.last().cloned().unwrap_or(Slot::Nothing));
                            if matches!(y, Slot::Ok { .. }) && !x.same(&y) {
                                if chrono::Utc::now().date_naive() != today0 {
                                    return Verdict::skip("date changed during the case", rendered);
                                }
                                acc.fail(format!("[{}] the last line of {:?} gives {} but written without the names ({:?}) it gives {}", lang, prog_text, x.brief(), direct_text, y.brief()));
                                break;
                            }
                        }
                        (Err(pn), _) | (_, Err(pn)) => {
                            acc.fail(format!("panic at {}: {}", pn.site, pn.message));
                            break;
                        }
                    }
                }
            }
        }
        // the same through ONE session object that is switched between the languages (en, other, en): the
        // language in force decides, not the language the session used before
        let mut session_checked = false;
        if acc.ok() {
            let mut seq: Vec<(String, String)> = vec![("en".to_string(), en_text.clone())];
            for lang in &langs {
                if let Some(t) = render(c, lang) {
                    seq.push((lang.clone(), t));
                    seq.push(("en".to_string(), en_text.clone()));
                }
            }
            if seq.len() > 1 {
                let mut session = smartcalc::Session::new();
                for (lang, text) in &seq {
                    w.count_eval(2);
                    let direct = w.eval(&cfg, lang, text);
                    let via = {
                        let calc = w.calcs.get(&cfg);
                        crate::common::eval_session(calc, &mut session, lang, text)
                    };
                    match (direct, via) {
                        (Ok(d), Ok(v)) => {
                            let same = d.slots.len() == v.slots.len() && d.slots.iter().zip(v.slots.iter()).all(|(x, y)| x.same(y));
                            if !same {
                                if chrono::Utc::now().date_naive() != today0 {
                                    return Verdict::skip("date changed during the case", rendered);
                                }
                                acc.fail(format!("[{}] {:?} on a session that was switched between languages gives {:?}, a fresh evaluation gives {:?}", lang, text, v.slots.iter().map(|s| s.brief()).collect::<Vec<_>>(), d.slots.iter().map(|s| s.brief()).collect::<Vec<_>>()));
                                break;
                            }
                        }
                        (Err(p), _) | (_, Err(p)) => {
                            acc.fail(format!("panic at {}: {}", p.site, p.message));
                            break;
                        }
                    }
                }
                session_checked = true;
            }
        }
        let en_ok = en.slots.iter().any(|s| matches!(s, Slot::Ok { .. }));
        let kind: &'static str = match &c.shape {
            Shape::OpWord(..) => "operator-words",
            Shape::Durations(_) => "duration-words",
            Shape::Dates(_) => "dates-and-day-keywords",
            Shape::WordFree(_) => "word-free",
            Shape::Program(Prog::Row(_)) => "program:duration-names-in-a-row",
            Shape::Program(Prog::DateRange(..)) => "program:range-between-date-names",
            Shape::Program(Prog::TimeRange(..)) => "program:range-between-time-names",
            Shape::Program(Prog::DurThenRange(..)) => "durations-then-time-range",
            Shape::Program(Prog::DateThenDur(..)) => "date-then-duration-without-operator",
            Shape::Program(Prog::PerWord(..)) => "amount-per-unit-word",
        };
        acc.finish(rendered).nt(en_ok && (translated_word || non_number)).class(kind).class_if(translated_word, "has-translated-word").class_if(en_ok, "evaluates-in-english").class_if(session_checked, "also-through-one-session-switched-between-languages").class_if(c.wcase % 3 != 0 && matches!(c.shape, Shape::OpWord(..)), "operator-word-recased")
    }
}

pub fn operand_strategy() -> impl Strategy<Value = Operand> {
    prop_oneof![
        4 => crate::c05::value_strategy().prop_map(Operand::Num),
        2 => (crate::c06::amount_strategy(), crate::c06::rated_key()).prop_map(|(a, c)| Operand::Money(a, c)),
        2 => (0u32..=500, 0u8..7, 0u8..2).prop_map(|(n, u, s)| Operand::Dur(n, u, s)),
    ]
}

pub fn case_strategy() -> impl Strategy<Value = Case> {
    let word_free = prop_oneof![
        3 => crate::c02::expr_strategy(4, 12).prop_map(|e| crate::mixed::GenLine::simple(crate::c02::to_line(&e), "C02")),
        2 => crate::c05::case_strategy().prop_map(|c| crate::mixed::GenLine::simple(crate::c05::case_line(&c), "C05")),
        // money: literals, juxtaposed conversion, arithmetic (connective words are English-only)
        3 => crate::c06::shape_strategy().prop_map(|s| {
            let s = match s {
                crate::c06::Shape::Convert(m, _, t, cp, b) => crate::c06::Shape::Convert(m, 0, t, cp, b),
                other => other,
            };
            crate::mixed::GenLine::simple(crate::c06::shape_line(&s), "C06")
        }),
        // variables holding a value
        2 => crate::mixed::any_line().prop_filter("programs without language-dependent words", |g| g.src == "C03" && !g.all_lines().iter().any(|l| l.toks.iter().any(|t| matches!(t.class, Class::DurWord | Class::Month | Class::Keyword)))),
    ];
    prop_oneof![
        3 => (operand_strategy(), prop::sample::select(vec!['*', '+', '-']), any::<u32>(), operand_strategy(), prop_oneof![2 => Just(0u8), 1 => 1u8..3]).prop_map(|(a, op, p, b, wcase)| Case { shape: Shape::OpWord(a, op, p, b), wcase }),
        3 => crate::c10::case_strategy().prop_map(|d| Case { shape: Shape::Durations(d), wcase: 0 }),
        // date shapes valid in every language (no month-first form)
        4 => crate::c09::shape_strategy("tr").prop_map(|shape| Case { shape: Shape::Dates(crate::c09::Case { lang: "tr".into(), shape, tz: None, seps: 0, glue: false, via_var: false }), wcase: 0 }),
        4 => word_free.prop_map(|g| Case { shape: Shape::WordFree(g), wcase: 0 }),
        2 => prog_strategy().prop_map(|p| Case { shape: Shape::Program(p), wcase: 0 }),
    ]
}

pub fn prog_strategy() -> impl Strategy<Value = Prog> {
    let parts = || prop::collection::vec((0u32..=200, 0u8..7, 0u8..2), 1..=2).prop_map(|v| {
        let mut v: Vec<crate::c10::Part> = v.into_iter().map(|(count, unit, spelling)| crate::c10::Part { count, unit, spelling, group: false }).collect();
        // descending, distinct units read naturally
        v.sort_by(|a, b| b.unit.cmp(&a.unit));
        v.dedup_by_key(|p| p.unit);
        v
    });
    let names = || Just((0..PROG_NAMES.len() as u8).collect::<Vec<u8>>()).prop_shuffle();
    let time = || crate::c11::time_strategy().prop_map(|t| TimeLit { form: t.form % 2, ..t });
    prop_oneof![
        3 => (names(), prop::collection::vec(parts(), 2..=4)).prop_map(|(n, ps)| Prog::Row(ps.into_iter().enumerate().map(|(k, p)| (n[k], p)).collect())),
        3 => (names(), crate::c09::datelit("tr"), crate::c09::datelit("tr")).prop_map(|(n, a, b)| Prog::DateRange((n[0], a), (n[1], b))),
        2 => (names(), time(), time()).prop_map(|(n, a, b)| Prog::TimeRange((n[0], a), (n[1], b))),
        2 => (parts(), time(), time()).prop_map(|(p, a, b)| Prog::DurThenRange(p, a, b)),
        2 => (1u32..=500, prop::bool::weighted(0.2), 0u8..7, 1u32..=40).prop_map(|(n, pct, unit, m)| Prog::PerWord(n, pct, unit, m)),
        // (years below 32 are left out: in English `29 feb 28 24 weeks` also reads as the month-first date `feb 28, 24`)
        3 => (crate::c09::datelit("tr"), 0u32..=40, 0u8..4, 0u8..2).prop_map(|(d, n, u, sp)| Prog::DateThenDur(crate::c09::DateLit { y: d.y.map(|y| if y < 32 { y + 1990 } else { y }), ..d }, n, u, sp)),
    ]
}

/// every operator word of every language, every month name by number, every duration word
pub fn table() -> Vec<Case> {
    let mut out = vec![];
    for op in ['*', '+', '-'] {
        for k in 0..8u32 {
            let pick = (((k as u64) << 32) / 8 + 1) as u32;
            out.push(Case { shape: Shape::OpWord(Operand::Num(NumLit::new(12.0)), op, pick, Operand::Num(NumLit::new(5.0))), wcase: 0 });
            out.push(Case { shape: Shape::OpWord(Operand::Money(NumLit::new(12.0), "usd".into()), op, pick, if op == '*' { Operand::Num(NumLit::new(5.0)) } else { Operand::Money(NumLit::new(5.0), "eur".into()) }), wcase: 0 });
        }
    }
    for m in 1..=12u32 {
        for k in 0..4u32 {
            let pick = (((k as u64) << 32) / 4 + 1) as u32;
            for cp in 0..3u8 {
                out.push(Case { shape: Shape::Dates(crate::c09::Case { lang: "tr".into(), shape: crate::c09::Shape::Literal(crate::c09::DateLit { y: Some(2020), m, d: 12, spell: crate::c09::Spell::DMonY(pick, cp, 0) }), tz: None, seps: 0, glue: false, via_var: false }), wcase: 0 });
                out.push(Case { shape: Shape::Dates(crate::c09::Case { lang: "tr".into(), shape: crate::c09::Shape::Literal(crate::c09::DateLit { y: None, m, d: 12, spell: crate::c09::Spell::DMon(pick, cp, 0) }), tz: None, seps: 0, glue: false, via_var: false }), wcase: 0 });
            }
        }
    }
    for u in 0..7u8 {
        for sp in 0..2u8 {
            for n in [0u32, 1, 2, 30, 365] {
                out.push(Case { shape: Shape::Durations(crate::c10::Case { lang: "tr".into(), groups: vec![vec![crate::c10::Part { count: n, unit: u, spelling: sp, group: false }]], plus: vec![], conv: None, via_var: false, num: None }), wcase: 0 });
            }
        }
    }
    for w in 0..3u8 {
        out.push(Case { shape: Shape::Dates(crate::c09::Case { lang: "tr".into(), shape: crate::c09::Shape::Const(w, None), tz: None, seps: 0, glue: false, via_var: false }), wcase: 0 });
        out.push(Case { shape: Shape::Dates(crate::c09::Case { lang: "tr".into(), shape: crate::c09::Shape::Const(w, Some((true, 3))), tz: None, seps: 0, glue: false, via_var: false }), wcase: 0 });
    }
    out
}

pub fn run(ctx: &Ctx) {
    ctx.rule("sentence templates whose words are slots filled per language from config.json (keyed by operator / constant id / month number): operator words (times|multiply <-> çarpı|carpi|kere|çarp|carp, add|sum|append <-> ekle|topla|toplam, minus|exclude <-> eksi|çıkar|cikar|çıkart|cikart) between numbers, money and durations, duration sums and differences with every unit word, dates in every month-name spelling, date +- duration, date differences (A to B <-> A B arası), today|tomorrow|yesterday; programs with values held in names of one or two words (ilk tarih, vardiya başı): 2-4 duration names in a row (= their sum), 'A to B' <-> 'A B arası' between two date names or two time names, written durations followed by a time range, a date directly followed by a written duration (12 march 3 days = 12 march + 3 days), an amount per unit word inside arithmetic (25/hour * 14 <-> 25/saat * 14) - the last line must also equal the same line written without the names; and word-free lines (arithmetic, percentages, money literals / juxtaposed conversion / arithmetic, variable programs) evaluated unchanged in every configured language; oracle: the value in every other language equals the English value exactly; dates and durations are printed with that language's own month names and unit words (parsed back with its word lists into the same day/month/year resp. (count, unit) parts); every other kind prints identically; an exhaustive table covers every operator word, every month name and every duration word; non-trivial = the line evaluates in English and contains a translated word, or is word-free and evaluates to a non-number kind");
    ctx.assume("only features both languages configure are compared (Turkish has no connective words, zone conversion, unix, base, unit conversion or 'at' rules); 'divide' has no Turkish alias");
    ctx.run_table(&Languages, "all-translatable-words", table(), true);
    ctx.run_generated(&Languages, ctx.tier.pick(100_000, 1_000_000), case_strategy);
}

pub fn replay(w: &mut Worker, sub: &str, case: &serde_json::Value) -> Option<Verdict> {
    match sub {
        "languages" => crate::engine::replay_case(&Languages, w, case),
        _ => None,
    }
}
