//! C02 — arithmetic: precedence, associativity, parentheses, signs, juxtaposition, suffixes.
//!
//! Generator: expression trees; oracle: reference evaluator over the tree (IEEE f64, x/0 = 0).

use crate::calendar::valid_ymd;
use crate::common::{close, literal, Cfg, Slot, NT, READ_SEPS, V};
use crate::engine::{monotone_index, Acc, Ctx, Prop, Verdict, Worker};
use crate::vocab::safe_words;
use proptest::prelude::*;
use serde::{Deserialize, Serialize};

#[derive(Clone, Copy, Debug, PartialEq, Eq, Serialize, Deserialize)]
pub enum Op {
    Add,
    Sub,
    Mul,
    Div,
}
impl Op {
    pub fn ch(&self) -> char {
        match self {
            Op::Add => '+',
            Op::Sub => '-',
            Op::Mul => '*',
            Op::Div => '/',
        }
    }
    fn apply(&self, a: f64, b: f64) -> f64 {
        match self {
            Op::Add => a + b,
            Op::Sub => a - b,
            Op::Mul => a * b,
            Op::Div => {
                let r = a / b;
                if r.is_finite() {
                    r
                } else {
                    0.0
                }
            }
        }
    }
    fn is_addsub(&self) -> bool {
        matches!(self, Op::Add | Op::Sub)
    }
}

/// A literal: non-negative mantissa, optional magnitude suffix, optional attached sign.
#[derive(Clone, Debug, PartialEq, Serialize, Deserialize)]
pub struct Lit {
    pub mant: f64,
    pub suffix: Option<char>,
    /// 0 none, 1 attached '-', 2 attached '+'
    pub sign: u8,
    pub group: bool,
}

pub fn suffix_factor(c: char) -> f64 {
    match c {
        'k' | 'K' => 1e3,
        'M' => 1e6,
        'G' => 1e9,
        'T' => 1e12,
        'P' => 1e15,
        'Z' => 1e18,
        'Y' => 1e21,
        _ => 1.0,
    }
}

impl Lit {
    pub fn plain(v: f64) -> Lit {
        Lit { mant: v, suffix: None, sign: 0, group: false }
    }
    pub fn value(&self) -> f64 {
        let m = if self.sign == 1 { -self.mant } else { self.mant };
        match self.suffix {
            Some(c) => m * suffix_factor(c),
            None => m,
        }
    }
    pub fn render(&self, dec: &str, thou: &str) -> String {
        let mut s = String::new();
        match self.sign {
            1 => s.push('-'),
            2 => s.push('+'),
            _ => {}
        }
        s.push_str(&literal(self.mant, dec, thou, self.group));
        if let Some(c) = self.suffix {
            s.push(c);
        }
        s
    }
}

#[derive(Clone, Debug, PartialEq, Serialize, Deserialize)]
pub enum E {
    Lit(Lit),
    /// detached or group sign: (negative?, detached blanks, operand)
    Sign(bool, Box<E>),
    /// redundant parentheses
    Paren(Box<E>),
    /// (op, juxtaposed: render without the '+' when both neighbours are literals)
    Bin(Op, bool, Box<E>, Box<E>),
}

impl E {
    /// value, an absolute error bound of the double-precision evaluation (a few ulps per operation, propagated), and
    /// whether some divisor cannot be told from zero within its own bound (then x/0 = 0 makes the value discontinuous)
    pub fn eval_bound(&self) -> (f64, f64, bool) {
        const U: f64 = 4.0 * f64::EPSILON;
        let tiny = 64.0 * f64::from_bits(1); // subnormal spacing
        match self {
            E::Lit(l) => {
                let v = l.value();
                (v, v.abs() * U + tiny, false)
            }
            E::Sign(neg, e) => {
                let (v, err, u) = e.eval_bound();
                (if *neg { -v } else { v }, err, u)
            }
            E::Paren(e) => e.eval_bound(),
            E::Bin(op, _, l, r) => {
                let (a, ea, ua) = l.eval_bound();
                let (b, eb, ub) = r.eval_bound();
                let v = op.apply(a, b);
                let (err, unstable) = match op {
                    Op::Add | Op::Sub => (ea + eb, false),
                    Op::Mul => (a.abs() * eb + b.abs() * ea + ea * eb, false),
                    Op::Div => {
                        if b == 0.0 || b.abs() <= eb {
                            (0.0, b != 0.0 || eb > tiny)
                        } else {
                            let denom = (b.abs() - eb).max(f64::MIN_POSITIVE);
                            (ea / denom + a.abs() * eb / (denom * denom), false)
                        }
                    }
                };
                (v, err + v.abs() * U + tiny, ua || ub || unstable)
            }
        }
    }
    pub fn eval(&self) -> f64 {
        match self {
            E::Lit(l) => l.value(),
            E::Sign(neg, e) => {
                let v = e.eval();
                if *neg {
                    -v
                } else {
                    v
                }
            }
            E::Paren(e) => e.eval(),
            E::Bin(op, _, l, r) => op.apply(l.eval(), r.eval()),
        }
    }
    pub fn leaves(&self) -> usize {
        match self {
            E::Lit(_) => 1,
            E::Sign(_, e) | E::Paren(e) => e.leaves(),
            E::Bin(_, _, l, r) => l.leaves() + r.leaves(),
        }
    }
    pub fn depth(&self) -> usize {
        match self {
            E::Lit(_) => 0,
            E::Sign(_, e) | E::Paren(e) => 1 + e.depth(),
            E::Bin(_, _, l, r) => 1 + l.depth().max(r.depth()),
        }
    }
}

/// Tokens of a rendered expression.
#[derive(Clone, Debug, PartialEq)]
pub enum Tok {
    Lit(f64, String, Lit),
    Op(char),
    L,
    R,
}

fn is_bin(e: &E) -> Option<Op> {
    match e {
        E::Bin(op, ..) => Some(*op),
        _ => None,
    }
}

/// Render a tree to tokens, inserting the parentheses the usual rules require.
pub fn to_tokens(e: &E, dec: &str, thou: &str, out: &mut Vec<Tok>) {
    match e {
        E::Lit(l) => out.push(Tok::Lit(l.value(), l.render(dec, thou), l.clone())),
        E::Paren(inner) => {
            out.push(Tok::L);
            to_tokens(inner, dec, thou, out);
            out.push(Tok::R);
        }
        E::Sign(neg, inner) => {
            out.push(Tok::Op(if *neg { '-' } else { '+' }));
            match &**inner {
                E::Lit(_) | E::Paren(_) => to_tokens(inner, dec, thou, out),
                other => {
                    out.push(Tok::L);
                    to_tokens(other, dec, thou, out);
                    out.push(Tok::R);
                }
            }
        }
        E::Bin(op, juxt, l, r) => {
            // left operand
            let lp = match (is_bin(l), op.is_addsub()) {
                (Some(lo), false) => lo.is_addsub(),
                _ => false,
            };
            if lp {
                out.push(Tok::L);
            }
            to_tokens(l, dec, thou, out);
            if lp {
                out.push(Tok::R);
            }
            let rp = match (is_bin(r), op.is_addsub()) {
                (Some(ro), true) => ro.is_addsub(),
                (Some(_), false) => true,
                _ => false,
            };
            // juxtaposition: the left side ends in a literal or a closing parenthesis, the right side starts with an
            // unsigned literal or an opening parenthesis (`2 3`, `2 (3) 4`, `(1 + 2) 3`, `(2)(3)`)
            let mut omit = false;
            if *juxt && *op == Op::Add {
                let left_ends_operand = matches!(out.last(), Some(Tok::Lit(..)) | Some(Tok::R));
                let right_starts_operand = rp || {
                    let mut probe = vec![];
                    to_tokens(r, dec, thou, &mut probe);
                    match probe.first() {
                        Some(Tok::Lit(_, _, l)) => l.sign == 0,
                        Some(Tok::L) => true,
                        _ => false,
                    }
                };
                omit = left_ends_operand && right_starts_operand;
            }
            if !omit {
                out.push(Tok::Op(op.ch()));
            }
            if rp {
                out.push(Tok::L);
            }
            to_tokens(r, dec, thou, out);
            if rp {
                out.push(Tok::R);
            }
        }
    }
}

fn first_token_is_unsigned_lit(e: &E) -> bool {
    match e {
        E::Lit(l) => l.sign == 0,
        E::Bin(op, _, l, _) => {
            // the left operand is rendered first; it is parenthesised when it is an add/sub under mul/div
            if !op.is_addsub() {
                if let Some(lo) = is_bin(l) {
                    if lo.is_addsub() {
                        return false;
                    }
                }
            }
            first_token_is_unsigned_lit(l)
        }
        _ => false,
    }
}

/// Join tokens with generated spacing. `spaces[i]` is the number of blanks before token i
/// (and spaces[len] after the last); a blank is forced between two adjacent literals.
pub fn join(tokens: &[Tok], spaces: &[u8]) -> String {
    let mut s = String::new();
    for (i, t) in tokens.iter().enumerate() {
        let mut n = spaces.get(i).copied().unwrap_or(0) as usize;
        if i > 0 {
            if let (Tok::Lit(..), Tok::Lit(..)) = (&tokens[i - 1], t) {
                n = n.max(1);
            }
        }
        for _ in 0..n {
            s.push(' ');
        }
        match t {
            Tok::Lit(_, text, _) => s.push_str(text),
            Tok::Op(c) => s.push(*c),
            Tok::L => s.push('('),
            Tok::R => s.push(')'),
        }
    }
    for _ in 0..spaces.get(tokens.len()).copied().unwrap_or(0) {
        s.push(' ');
    }
    s
}

// ---- token-level evaluators (the usual reading and three wrong readings) -------------------

#[derive(Clone, Copy, PartialEq)]
pub enum Mode {
    Normal,
    NoPrecedence,
    RightAssoc,
}

struct P<'a> {
    t: &'a [Tok],
    i: usize,
    mode: Mode,
}

impl<'a> P<'a> {
    fn peek(&self) -> Option<&Tok> {
        self.t.get(self.i)
    }
    fn primary(&mut self) -> Option<f64> {
        match self.peek()?.clone() {
            Tok::Lit(v, _, _) => {
                self.i += 1;
                Some(v)
            }
            Tok::L => {
                self.i += 1;
                let v = self.expr()?;
                if let Some(Tok::R) = self.peek() {
                    self.i += 1;
                    Some(v)
                } else {
                    None
                }
            }
            Tok::Op(c) if c == '-' || c == '+' => {
                self.i += 1;
                let v = self.primary()?;
                Some(if c == '-' { -v } else { v })
            }
            _ => None,
        }
    }
    fn next_binop(&mut self, set: &[char]) -> Option<Op> {
        match self.peek() {
            Some(Tok::Op(c)) if set.contains(c) => {
                let op = match c {
                    '+' => Op::Add,
                    '-' => Op::Sub,
                    '*' => Op::Mul,
                    _ => Op::Div,
                };
                self.i += 1;
                Some(op)
            }
            // juxtaposition = implicit '+'
            Some(Tok::Lit(..)) | Some(Tok::L) if set.contains(&'+') => Some(Op::Add),
            _ => None,
        }
    }
    fn term(&mut self) -> Option<f64> {
        let mut v = self.primary()?;
        match self.mode {
            Mode::RightAssoc => {
                if let Some(op) = self.next_binop(&['*', '/']) {
                    let r = self.term()?;
                    v = op.apply(v, r);
                }
            }
            _ => {
                while let Some(op) = self.next_binop(&['*', '/']) {
                    let r = self.primary()?;
                    v = op.apply(v, r);
                }
            }
        }
        Some(v)
    }
    fn expr(&mut self) -> Option<f64> {
        match self.mode {
            Mode::NoPrecedence => {
                let mut v = self.primary()?;
                while let Some(op) = self.next_binop(&['+', '-', '*', '/']) {
                    let r = self.primary()?;
                    v = op.apply(v, r);
                }
                Some(v)
            }
            Mode::RightAssoc => {
                let v = self.term()?;
                if let Some(op) = self.next_binop(&['+', '-']) {
                    let r = self.expr()?;
                    return Some(op.apply(v, r));
                }
                Some(v)
            }
            Mode::Normal => {
                let mut v = self.term()?;
                while let Some(op) = self.next_binop(&['+', '-']) {
                    let r = self.term()?;
                    v = op.apply(v, r);
                }
                Some(v)
            }
        }
    }
}

pub fn eval_tokens(t: &[Tok], mode: Mode) -> Option<f64> {
    let mut p = P { t, i: 0, mode };
    let v = p.expr()?;
    if p.i == t.len() {
        Some(v)
    } else {
        None
    }
}

pub fn eval_ignoring_parens(t: &[Tok]) -> Option<f64> {
    let f: Vec<Tok> = t.iter().filter(|x| !matches!(x, Tok::L | Tok::R)).cloned().collect();
    eval_tokens(&f, Mode::Normal)
}

/// What the library's lexer sees: signed literals (a sign glued to digits always belongs to the
/// literal) and single-character operators.
#[derive(Clone, Debug, PartialEq)]
pub enum LTok {
    Num(f64),
    Op(char),
}

pub fn lex_line(line: &str, dec: &str, thou: &str) -> Vec<LTok> {
    let ch: Vec<char> = line.chars().collect();
    let mut out = vec![];
    let mut i = 0;
    while i < ch.len() {
        let c = ch[i];
        let starts_num = c.is_ascii_digit() || ((c == '-' || c == '+') && ch.get(i + 1).map_or(false, |d| d.is_ascii_digit()));
        if starts_num {
            let mut j = i + 1;
            while j < ch.len() && (ch[j].is_ascii_digit() || ch[j] == '.' || ch[j] == ',') {
                j += 1;
            }
            let text: String = ch[i..j].iter().collect();
            let norm = if thou.is_empty() { text.clone() } else { text.replace(thou, "") }.replace(dec, ".");
            let mut v = norm.parse::<f64>().unwrap_or(f64::NAN);
            let mut k = j;
            while k < ch.len() && ch[k].is_ascii_alphabetic() {
                k += 1;
            }
            if k == j + 1 {
                v *= suffix_factor(ch[j]);
            }
            out.push(LTok::Num(v));
            i = k;
        } else if c == ' ' {
            i += 1;
        } else {
            out.push(LTok::Op(c));
            i += 1;
        }
    }
    out
}

/// Does the line contain `NUM / NUM / NUM` that reads as a valid day/month/year?
pub fn has_date_triple(line: &str, dec: &str, thou: &str) -> bool {
    let t = lex_line(line, dec, thou);
    if t.len() < 5 {
        return false;
    }
    for i in 0..t.len() - 4 {
        if let (LTok::Num(a), LTok::Op('/'), LTok::Num(b), LTok::Op('/'), LTok::Num(c)) = (&t[i], &t[i + 1], &t[i + 2], &t[i + 3], &t[i + 4]) {
            // the library casts with `as u32` / `as i32` (saturating, truncating)
            let d = *a as u32;
            let m = *b as u32;
            let y = *c as i32;
            if valid_ymd(y as i64, m as i64, d as i64) {
                return true;
            }
        }
    }
    false
}

/// the expression as a generic token line (for the metamorphic properties)
pub fn to_line(e: &E) -> crate::lines::Line {
    use crate::lines::{Class, Line, NumLit, Tok as LT};
    let mut toks = vec![];
    to_tokens(e, ",", ".", &mut toks);
    let mut line = Line::default();
    let mut prev_open = false;
    for t in toks {
        let mut lt = match t {
            Tok::Lit(_, _, l) => LT::with("", NumLit { v: l.mant, sign: l.sign, group: l.group }, &l.suffix.map(|c| c.to_string()).unwrap_or_default(), Class::Number),
            Tok::Op(c) => LT::op(c),
            Tok::L => LT::op('('),
            Tok::R => LT::op(')').sp(0),
        };
        if prev_open {
            lt.space = 0;
        }
        prev_open = matches!(lt.class, Class::Paren) && lt.pre == "(";
        line.push(lt);
    }
    line
}

// ---- the case --------------------------------------------------------------------------------

#[derive(Clone, Debug, Serialize, Deserialize)]
pub struct Case {
    pub e: E,
    pub spaces: Vec<u8>,
    /// index into READ_SEPS
    pub seps: usize,
    /// Some(index into the safe-word pool): render as `name = expr`
    pub assign: Option<u32>,
    /// evaluate under the Turkish language tag (arithmetic does not depend on words)
    #[serde(default)]
    pub tr: bool,
    /// set_number_configuration(digits, remove_fract_if_zero, use_fract_rounding): how numbers are PRINTED has no say in
    /// what a line evaluates to
    #[serde(default)]
    pub num: Option<(u8, bool, bool)>,
}

pub fn render_case(c: &Case) -> (Cfg, Vec<Tok>, String) {
    let (dec, thou) = READ_SEPS[c.seps % READ_SEPS.len()];
    let mut toks = vec![];
    to_tokens(&c.e, dec, thou, &mut toks);
    let mut line = join(&toks, &c.spaces);
    if let Some(i) = c.assign {
        let words = safe_words();
        let name = words[monotone_index(i, words.len())];
        line = format!("{} = {}", name, line);
    }
    let mut cfg = Cfg::seps(dec, thou);
    cfg.num = c.num;
    (cfg, toks, line)
}

pub struct Arith;

/// known-finding signatures for C02 (matched on input shape and failure shape)
fn classify_known(_toks: &[Tok], _got: &Slot, _exp: f64) -> Option<&'static str> {
    None
}

impl Prop for Arith {
    type Case = Case;
    fn name(&self) -> &'static str {
        "arith"
    }
    fn check(&self, w: &mut Worker, c: &Case) -> Verdict {
        let (cfg, toks, line) = render_case(c);
        let exp = c.e.eval();
        // harness self-check: the rendering must mean the tree under the usual rules
        match eval_tokens(&toks, Mode::Normal) {
            Some(v) if v == exp || (v.is_nan() && exp.is_nan()) => {}
            other => {
                eprintln!("INTERNAL: rendering changed the meaning: tree={} tokens={:?} line={:?}", exp, other, line);
                std::process::exit(3);
            }
        }
        if !exp.is_finite() {
            return Verdict::skip("reference value not finite", line);
        }
        if has_date_triple(&line, cfg.dec(), cfg.thou()) {
            return Verdict::skip("quotient chain reads as a date (by design, C09)", line);
        }
        let lang = if c.tr { "tr" } else { "en" };
        let slot = match w.eval1(&cfg, lang, &line) {
            Ok(s) => s,
            Err(e) => return Verdict::fail(e, line),
        };
        let line = if c.tr { format!("[tr] {}", line) } else { line };
        let line = if let Some(n) = c.num { format!("[number format {:?}] {}", n, line) } else { line };
        let mut acc = Acc::new();
        match &slot {
            Slot::Ok { v: V::Num(got, NT::Decimal), .. } => {
                // double precision: within a relative 1e-9, or - where operands cancel - within a generous multiple of
                // the propagated rounding error (NOT an absolute epsilon: 1e-315 is not 0)
                let (_, bound, unstable) = c.e.eval_bound();
                let ok = if unstable || !bound.is_finite() { close(*got, exp) } else { *got == exp || (got.is_finite() && (*got - exp).abs() <= (1e-9 * exp.abs()).max(1e6 * bound)) };
                if !ok {
                    acc.fail_kf(format!("expected {} got {}", exp, got), classify_known(&toks, &slot, exp));
                }
            }
            other => acc.fail_kf(format!("expected Number({}) got {}", exp, other.brief()), classify_known(&toks, &slot, exp)),
        }
        // non-triviality: distinguishing cases
        let differs = |o: Option<f64>| match o {
            Some(v) => !close(v, exp),
            None => false,
        };
        let d_prec = differs(eval_tokens(&toks, Mode::NoPrecedence));
        let d_assoc = differs(eval_tokens(&toks, Mode::RightAssoc));
        let d_paren = differs(eval_ignoring_parens(&toks));
        let has_paren = toks.iter().any(|t| matches!(t, Tok::L));
        let has_juxt = toks.windows(2).any(|p| matches!((&p[0], &p[1]), (Tok::Lit(..), Tok::Lit(..))));
        let has_suffix = toks.iter().any(|t| matches!(t, Tok::Lit(_, s, _) if s.chars().last().map_or(false, |c| c.is_ascii_alphabetic())));
        let has_detached = (0..toks.len()).any(|i| matches!(&toks[i], Tok::Op('-') | Tok::Op('+')) && (i == 0 || matches!(&toks[i - 1], Tok::Op(_) | Tok::L)));
        let has_div0 = has_zero_division(&c.e);
        acc.finish(line)
            .nt(d_prec || d_assoc || d_paren)
            .class_if(d_prec, "distinguishes:precedence")
            .class_if(d_assoc, "distinguishes:associativity")
            .class_if(d_paren, "distinguishes:parentheses")
            .class_if(has_paren, "has-paren")
            .class_if(has_juxt, "has-juxtaposition")
            .class_if(has_suffix, "has-suffix")
            .class_if(has_detached, "has-sign-prefix")
            .class_if(has_div0, "has-division-by-zero")
            .class_if(c.assign.is_some(), "is-assignment")
            .class_if(c.e.depth() >= 4, "depth>=4")
            .class_if(c.seps != 0, "non-default-separators")
    }
}

fn has_zero_division(e: &E) -> bool {
    match e {
        E::Lit(_) => false,
        E::Sign(_, x) | E::Paren(x) => has_zero_division(x),
        E::Bin(op, _, l, r) => (*op == Op::Div && r.eval() == 0.0) || has_zero_division(l) || has_zero_division(r),
    }
}

// ---- strategies --------------------------------------------------------------------------------

pub fn lit_strategy() -> impl Strategy<Value = Lit> {
    let mant = prop_oneof![
        4 => (0u32..=40).prop_map(|v| v as f64),
        3 => (0u32..=100_000).prop_map(|v| v as f64),
        2 => (0u64..=999_999_999_999u64).prop_map(|v| v as f64),
        // fractions with 1..6 digits
        3 => (0u32..=9_999_999, 1u32..=6).prop_map(|(n, d)| {
            let s = format!("{}.{:0width$}", n / 10u32.pow(d), n % 10u32.pow(d), width = d as usize);
            s.parse::<f64>().unwrap()
        }),
        1 => Just(0.0),
        1 => prop_oneof![Just(0.000001), Just(0.5), Just(0.1), Just(1e12), Just(999.995), Just(1000.0), Just(1000000.0)],
    ];
    let suffix = prop_oneof![
        10 => Just(None),
        3 => prop_oneof![Just('k'), Just('K'), Just('M'), Just('G'), Just('T'), Just('P'), Just('Z'), Just('Y')].prop_map(Some),
    ];
    (mant, suffix, prop_oneof![8 => Just(0u8), 2 => Just(1u8), 1 => Just(2u8)], any::<bool>()).prop_map(|(mant, suffix, sign, group)| {
        // keep suffixed magnitudes within range
        let mant = if suffix.is_some() && mant > 1e6 { (mant % 1000.0).floor() } else { mant };
        Lit { mant, suffix, sign, group }
    })
}

pub fn expr_strategy(depth: u32, size: u32) -> impl Strategy<Value = E> {
    let leaf = lit_strategy().prop_map(E::Lit);
    leaf.prop_recursive(depth, size, 2, |inner| {
        prop_oneof![
            8 => (prop_oneof![Just(Op::Add), Just(Op::Sub), Just(Op::Mul), Just(Op::Div)], prop::bool::weighted(0.25), inner.clone(), inner.clone()).prop_map(|(op, j, l, r)| E::Bin(op, j, Box::new(l), Box::new(r))),
            2 => inner.clone().prop_map(|e| E::Paren(Box::new(e))),
            2 => (any::<bool>(), inner.clone()).prop_map(|(neg, e)| {
                // a detached sign applies to a literal or to a group; never to another detached sign
                match e {
                    E::Sign(..) => E::Sign(neg, Box::new(E::Paren(Box::new(e)))),
                    other => E::Sign(neg, Box::new(other)),
                }
            }),
        ]
    })
}

/// deeply nested expressions: a small tree wrapped 10-160 times, either in redundant parentheses or in
/// `( <inner> op literal )` layers ("parentheses nested to any depth")
pub fn deep_strategy() -> impl Strategy<Value = Case> {
    let small = prop::sample::select(vec![1.0f64, 2.0, 3.0, 0.5, 10.0]);
    (expr_strategy(2, 4), 10usize..160, 0u8..4, small, any::<bool>(), prop::option::weighted(0.2, any::<u32>()), any::<bool>()).prop_map(|(base, k, pattern, lit, blank, assign, neg)| {
        let mut e = base;
        for i in 0..k {
            e = match pattern {
                0 => E::Paren(Box::new(e)),
                1 => E::Paren(Box::new(E::Bin(Op::Add, false, Box::new(e), Box::new(E::Lit(Lit::plain(lit)))))),
                2 => E::Paren(Box::new(E::Bin(if i % 2 == 0 { Op::Mul } else { Op::Sub }, false, Box::new(E::Lit(Lit::plain(lit))), Box::new(e)))),
                _ => {
                    if neg && i % 7 == 3 {
                        E::Sign(true, Box::new(E::Paren(Box::new(e))))
                    } else {
                        E::Paren(Box::new(E::Bin(Op::Add, false, Box::new(E::Bin(Op::Mul, false, Box::new(e), Box::new(E::Lit(Lit::plain(1.0))))), Box::new(E::Lit(Lit::plain(1.0))))))
                    }
                }
            };
        }
        Case { e, spaces: vec![if blank { 1 } else { 0 }; 8], seps: 0, assign, tr: false, num: None }
    })
}

/// quotient (and product) chains over literals with large magnitude suffixes: results from 1e-300 down into the
/// subnormal range and to an exact 0 - a double-precision value is not 0 because it is small
pub fn tiny_strategy() -> impl Strategy<Value = Case> {
    let big = (1u32..=999, prop::sample::select(vec!['T', 'P', 'Z', 'Y'])).prop_map(|(m, sfx)| E::Lit(Lit { mant: m as f64, suffix: Some(sfx), sign: 0, group: false }));
    (1u32..=999, prop::collection::vec((big, prop::bool::weighted(0.9)), 8..=17), any::<bool>(), prop::option::weighted(0.2, any::<u32>())).prop_map(|(first, rest, blank, assign)| {
        let mut e = E::Lit(Lit { mant: first as f64, suffix: None, sign: 0, group: false });
        let mut magnitude = 0i32; // keep products from overflowing: at most two multiplications in a row
        for (lit, div) in rest {
            let div = div || magnitude > 40;
            magnitude += if div { -21 } else { 21 };
            e = E::Bin(if div { Op::Div } else { Op::Mul }, false, Box::new(e), Box::new(lit));
        }
        Case { e, spaces: vec![if blank { 1 } else { 0 }; 80], seps: 0, assign, tr: false, num: None }
    })
}

pub fn case_strategy(depth: u32, size: u32) -> impl Strategy<Value = Case> {
    (case_strategy_en(depth, size), prop::bool::weighted(0.15), prop_oneof![5 => Just(None), 1 => (0u8..=6, any::<bool>(), any::<bool>()).prop_map(Some)]).prop_map(|(mut c, tr, num)| {
        c.tr = tr;
        c.num = num;
        c
    })
}

fn case_strategy_en(depth: u32, size: u32) -> impl Strategy<Value = Case> {
    (expr_strategy(depth, size), prop::collection::vec(prop_oneof![5 => Just(0u8), 4 => Just(1u8), 1 => Just(2u8), 1 => Just(3u8)], 0..80), prop_oneof![3 => Just(0usize), 1 => 1usize..4], prop::option::weighted(0.2, any::<u32>()))
        .prop_map(|(e, spaces, seps, assign)| Case { e, spaces, seps, assign, tr: false, num: None })
}

/// all trees with <= 3 operators over the literal set {2,3,5,7} (shape-exhaustive), one spacing
/// pattern per tree from {none, one blank}, plain and as an assignment
pub fn small_table() -> Vec<Case> {
    let lits = [2.0, 3.0, 5.0, 7.0];
    let ops = [Op::Add, Op::Sub, Op::Mul, Op::Div];
    fn shapes(n: usize) -> Vec<E> {
        // all binary tree shapes with n operators, leaves = Lit(0), ops = Add
        if n == 0 {
            return vec![E::Lit(Lit::plain(0.0))];
        }
        let mut v = vec![];
        for k in 0..n {
            for l in shapes(k) {
                for r in shapes(n - 1 - k) {
                    v.push(E::Bin(Op::Add, false, Box::new(l.clone()), Box::new(r)));
                }
            }
        }
        v
    }
    fn fill(e: &E, ops: &[Op], lits: &[f64], oi: &mut usize, li: &mut usize, code: usize) -> E {
        match e {
            E::Lit(_) => {
                let k = (code / 4usize.pow(*li as u32 + 4)) % 4; // literal choices use the upper digits
                *li += 1;
                E::Lit(Lit::plain(lits[k]))
            }
            E::Bin(_, _, l, r) => {
                let k = (code / 4usize.pow(*oi as u32)) % 4;
                *oi += 1;
                let l2 = fill(l, ops, lits, oi, li, code);
                let r2 = fill(r, ops, lits, oi, li, code);
                E::Bin(ops[k], false, Box::new(l2), Box::new(r2))
            }
            other => other.clone(),
        }
    }
    let mut out = vec![];
    for n in 1..=3usize {
        for sh in shapes(n) {
            let total = 4usize.pow(n as u32); // operator assignments
            for oc in 0..total {
                // literal assignment: a fixed rotation per (shape, oc) keeps the table small but varied,
                // plus the all-distinct assignment
                for lrot in 0..4usize {
                    let mut code = oc;
                    for leaf in 0..(n + 1) {
                        code += ((leaf + lrot) % 4) * 4usize.pow(leaf as u32 + 4);
                    }
                    let (mut oi, mut li) = (0, 0);
                    let e = fill(&sh, &ops, &lits, &mut oi, &mut li, code);
                    for sp in 0..2u8 {
                        for assign in [None, Some(7u32 << 24)] {
                            out.push(Case { e: e.clone(), spaces: vec![sp; 40], seps: 0, assign, tr: false, num: None });
                        }
                    }
                }
            }
        }
    }
    out
}

/// hand-picked regression shapes (each was a real defect or a trap while building the check)
pub fn regression_table() -> Vec<Case> {
    fn l(v: f64) -> Box<E> {
        Box::new(E::Lit(Lit::plain(v)))
    }
    fn ls(v: f64, sign: u8) -> Box<E> {
        Box::new(E::Lit(Lit { mant: v, suffix: None, sign, group: false }))
    }
    fn suf(v: f64, c: char) -> Box<E> {
        Box::new(E::Lit(Lit { mant: v, suffix: Some(c), sign: 0, group: false }))
    }
    fn b(op: Op, l: Box<E>, r: Box<E>) -> Box<E> {
        Box::new(E::Bin(op, false, l, r))
    }
    fn j(l: Box<E>, r: Box<E>) -> Box<E> {
        Box::new(E::Bin(Op::Add, true, l, r))
    }
    fn p(e: Box<E>) -> Box<E> {
        Box::new(E::Paren(e))
    }
    fn neg(e: Box<E>) -> Box<E> {
        Box::new(E::Sign(true, e))
    }
    // quotient chains that LOOK like dates but are not valid ones: they stay arithmetic (the excluded chains are exactly
    // the valid dates)
    let mut chains: Vec<Box<E>> = vec![];
    for (a, bb, c) in [(29.0, 2.0, 1900.0), (29.0, 2.0, 2100.0), (29.0, 2.0, 1800.0), (29.0, 2.0, 2021.0), (30.0, 2.0, 2020.0), (31.0, 4.0, 2020.0), (31.0, 6.0, 2021.0), (31.0, 9.0, 1999.0), (31.0, 11.0, 2000.0), (32.0, 1.0, 2020.0), (1.0, 13.0, 2020.0), (15.0, 13.0, 1999.0), (29.0, 2.0, 100.0)] {
        chains.push(b(Op::Div, b(Op::Div, l(a), l(bb)), l(c)));
        chains.push(b(Op::Add, l(1.0), b(Op::Mul, b(Op::Div, b(Op::Div, l(a), l(bb)), l(c)), l(4.0))));
    }
    let mut trees: Vec<Box<E>> = vec![
        // F20: 3 * - 5 + 2
        b(Op::Add, b(Op::Mul, l(3.0), neg(l(5.0))), l(2.0)),
        // 5 - - 3 * 2
        b(Op::Sub, l(5.0), b(Op::Mul, neg(l(3.0)), l(2.0))),
        // F21: (((5))), 1 + (((2)))
        p(p(p(l(5.0)))),
        b(Op::Add, l(1.0), p(p(p(l(2.0))))),
        b(Op::Mul, p(p(b(Op::Add, l(1.0), l(2.0)))), l(3.0)),
        // F22: -(2+3), 2 * -(3)
        neg(p(b(Op::Add, l(2.0), l(3.0)))),
        b(Op::Mul, l(2.0), neg(p(l(3.0)))),
        // F23: 1 2 + (3)
        b(Op::Add, j(l(1.0), l(2.0)), p(l(3.0))),
        // F24: 1M, 1G, 1k + 1M
        suf(1.0, 'M'),
        suf(1.0, 'G'),
        b(Op::Add, suf(1.0, 'k'), suf(1.0, 'M')),
        // F25: (1)-2 with an attached sign, (3)-2*2
        b(Op::Add, p(l(1.0)), ls(2.0, 1)),
        b(Op::Add, p(l(3.0)), b(Op::Mul, ls(2.0, 1), l(2.0))),
        // ( - 5 ) * ( - 2 )
        b(Op::Mul, p(neg(l(5.0))), p(neg(l(2.0)))),
        // division by zero inside: 5 / (2 - 2) + 1
        b(Op::Add, b(Op::Div, l(5.0), p(b(Op::Sub, l(2.0), l(2.0)))), l(1.0)),
        // 100 / 5 / 2 (not a date)
        b(Op::Div, b(Op::Div, l(100.0), l(5.0)), l(2.0)),
        // 2 * 3 4, 2k 3
        j(b(Op::Mul, l(2.0), l(3.0)), l(4.0)),
        j(suf(2.0, 'k'), l(3.0)),
    ];
    trees.extend(chains);
    let mut out = vec![];
    for t in trees {
        for sp in 0..2u8 {
            for assign in [None, Some(3u32 << 26)] {
                out.push(Case { e: (*t).clone(), spaces: vec![sp; 40], seps: 0, assign, tr: false, num: None });
            }
        }
    }
    out
}

pub fn run(ctx: &Ctx) {
    ctx.rule("generated: expression trees over decimal literals (integers, fractions, attached signs, k..Y suffixes, thousands groups), + - * /, redundant and required parentheses, detached sign prefixes on literals and groups, juxtaposed operands (literals and parenthesised groups: 2 3, 2 (3) 4, (1 + 2) 3), 0-3 blanks per gap, 4 separator conventions, optionally as the right-hand side of an assignment, under the language tags en and tr, a sixth of the trees under a random number format (printing only: the value must not change); plus trees wrapped 10-160 levels deep in parentheses (redundant, or `(inner op literal)` layers, with group signs); plus quotient chains over literals with the suffixes T..Y whose values run from 1e-300 through the subnormal range to an exact 0; oracle = reference evaluator over the tree (f64, x/0=0), tolerance 1e-9 relative or - where operands cancel - 10^6 times the propagated rounding-error bound (never an absolute epsilon); non-trivial = DISTINGUISHING: the reference value differs from at least one wrong reading of the same tokens (no precedence / right-associative / parentheses ignored); distinct = distinct rendered line + configuration");
    ctx.assume("a quotient chain NUM / NUM / NUM whose operands read as a valid day/month/year is a date by design and is excluded (counted under excluded)");
    ctx.assume("juxtaposition is generated where the left side ends in a literal or ')' and the right side starts with an unsigned literal or '('; a sign prefix applies to a literal (possibly carrying its own attached sign) or to a parenthesised group");
    ctx.run_table(&Arith, "regressions", regression_table(), false);
    ctx.run_table(&Arith, "small-trees", small_table(), true);
    let (d, s) = match ctx.tier {
        crate::engine::Tier::Quick => (6, 24),
        crate::engine::Tier::Thorough => (8, 40),
    };
    ctx.run_generated(&Arith, ctx.tier.pick(200_000, 2_000_000), || case_strategy(d, s));
    ctx.run_generated(&Arith, ctx.tier.pick(4_000, 40_000), deep_strategy);
    ctx.run_generated(&Arith, ctx.tier.pick(4_000, 40_000), tiny_strategy);
}

pub fn replay(w: &mut Worker, sub: &str, case: &serde_json::Value) -> Option<Verdict> {
    match sub {
        "arith" => crate::engine::replay_case(&Arith, w, case),
        _ => None,
    }
}
