//! C18 — custom rules and user-defined unit families: registration, effect, removal.

use crate::common::{build_calc, close, eval_on, Cfg, Slot, NT, V};
use crate::engine::{guarded, Acc, Ctx, Prop, Verdict, Worker};
use proptest::prelude::*;
use serde::{Deserialize, Serialize};
use smartcalc::{NumberType, RuleTrait, SmartCalc, SmartCalcConfig, TokenType};
use std::collections::BTreeMap;
use std::rc::Rc;

/// fresh keywords (checked against the reserved vocabulary at start-up)
/// keywords of rule patterns: eight fresh words, plus two slots that stand for an OPERATOR WORD of the rule's own
/// language (`times` / `kere` -> '*', `minus` / `eksi` -> '-'): a pattern is tokenised in the language it is
/// registered for, so such a word is an operator token in the pattern and in the line alike
pub const KEYWORDS: [&str; 10] = ["frob", "zork", "wibble", "quux", "plugh", "xyzzy", "grault", "corge", "@mul", "@sub"];

pub fn keyword(i: u8, lang: &str) -> &'static str {
    match (KEYWORDS[i as usize % KEYWORDS.len()], lang) {
        ("@mul", "tr") => "kere",
        ("@mul", _) => "times",
        ("@sub", "tr") => "eksi",
        ("@sub", _) => "minus",
        (w, _) => w,
    }
}
pub const RULE_NAMES: [&str; 4] = ["alpha", "beta", "gamma", "delta"];
/// names handed to delete_rule: the four rule names, and names nobody registered - among them the function names of
/// built-in rules (deleting "convert_money" is deleting an unknown name: false, and nothing changes)
pub const DELETE_NAMES: [&str; 12] = ["alpha", "beta", "gamma", "delta", "omega", "convert_money", "number_of", "small_date", "dynamic_type_convert", "as_duration", "combine_durations", "convert_timezone"];
pub const UNIT_NAMES: [&str; 10] = ["zib", "zob", "blarg", "flurb", "snork", "glorp", "wumpus", "thud", "garply", "fred"];
/// (family names are case-sensitive keys: two of them carry upper-case letters)
pub const FAMILY_NAMES: [&str; 3] = ["widgets", "Gizmos", "dooDads"];

#[derive(Clone, Debug, PartialEq, Serialize, Deserialize)]
pub enum Field {
    Number,
    Percent,
    Money,
    Text,
    /// a quantity of a user-defined family: `{DYNAMIC_TYPE:n:<family>}` (or `{DYNAMIC_TYPE:n}` without a family filter);
    /// the probe line writes the quantity with the unit of the given index
    Unit(Option<u8>, u8),
}

/// A pattern: keyword(s) and one or two typed fields named n (and k)
#[derive(Clone, Debug, PartialEq, Serialize, Deserialize)]
pub struct Pattern {
    /// keyword index
    pub kw: u8,
    /// layout: 0 `kw {n}`, 1 `{n} kw`, 2 `{n} kw {k}`, 3 `kw {n} kw2 {k}`; 4 `{n} {TEXT:t}` and 5 `{TEXT:t} {n}` have no
    /// keyword at all (they match every `number word` line; rules that use them always decline)
    pub layout: u8,
    pub n: Field,
    pub kw2: u8,
    /// letter case in which the (fresh) keywords are REGISTERED: 0 lower, 1 upper, 2 capitalised; a line may spell
    /// them in any case
    #[serde(default)]
    pub kcase: u8,
}

/// a keyword in a letter case (operator words of a language stay as configured)
fn cased(i: u8, lang: &str, case: u8) -> String {
    let w = keyword(i, lang);
    if i as usize % KEYWORDS.len() >= 8 {
        return w.to_string();
    }
    crate::lines::recase(w, match case % 3 { 0 => 2, 1 => 1, _ => 3 }, 0)
}

impl Pattern {
    fn field(f: &Field, name: &str) -> String {
        match f {
            Field::Number => format!("{{NUMBER:{}}}", name),
            Field::Percent => format!("{{PERCENT:{}}}", name),
            Field::Money => format!("{{MONEY:{}}}", name),
            Field::Text => format!("{{TEXT:{}}}", name),
            Field::Unit(Some(f), _) => format!("{{DYNAMIC_TYPE:{}:{}}}", name, FAMILY_NAMES[*f as usize % FAMILY_NAMES.len()]),
            Field::Unit(None, _) => format!("{{DYNAMIC_TYPE:{}}}", name),
        }
    }
    pub fn text(&self, lang: &str) -> String {
        let kw = cased(self.kw, lang, self.kcase);
        let kw2 = cased(self.kw2, lang, self.kcase);
        let n = Pattern::field(&self.n, "n");
        let k = "{NUMBER:k}";
        match self.layout % 6 {
            0 => format!("{} {}", kw, n),
            1 => format!("{} {}", n, kw),
            2 => format!("{} {} {}", n, kw, k),
            3 => format!("{} {} {} {}", kw, n, kw2, k),
            4 => format!("{} {{TEXT:t}}", n),
            _ => format!("{{TEXT:t}} {}", n),
        }
    }
    pub fn is_generic(&self) -> bool {
        self.layout % 6 >= 4
    }
    /// a line matching the pattern with the given field values
    pub fn line(&self, lang: &str, nv: u32, kv: u32) -> String {
        // the line spells the keywords in a case of its own
        let kw = cased(self.kw, lang, (nv % 3) as u8);
        let kw2 = cased(self.kw2, lang, (kv % 3) as u8);
        let n = match self.n {
            Field::Number => format!("{}", nv),
            Field::Percent => format!("{}%", nv),
            Field::Money => format!("{} usd", nv),
            Field::Text => "garply".to_string(),
            Field::Unit(_, u) => format!("{} {}", nv, UNIT_NAMES[u as usize % UNIT_NAMES.len()]),
        };
        match self.layout % 6 {
            0 => format!("{} {}", kw, n),
            1 => format!("{} {}", n, kw),
            2 => format!("{} {} {}", n, kw, kv),
            3 => format!("{} {} {} {}", kw, n, kw2, kv),
            4 => format!("{} waldo", n),
            _ => format!("waldo {}", n),
        }
    }
    fn has_k(&self) -> bool {
        self.layout % 6 == 2 || self.layout % 6 == 3
    }
}

#[derive(Clone, Debug, PartialEq, Serialize, Deserialize)]
pub enum Behaviour {
    DeclineAlways,
    /// decline when n is odd, else Number(c + 2n + 3k)
    DeclineOdd(u8),
    /// Number(c + 2n + 3k)
    Number(u8),
    /// Money(n + k, usd)
    Money,
    /// Percent(n + k)
    Percent,
    /// Duration(n + k seconds)
    Duration,
}

#[derive(Clone, Debug, PartialEq, Serialize, Deserialize)]
pub struct RuleSpec {
    pub name: u8,
    pub patterns: Vec<Pattern>,
    pub behaviour: Behaviour,
}

pub struct GenRule {
    pub spec: RuleSpec,
}

fn field_value(fields: &BTreeMap<String, TokenType>, name: &str) -> Option<f64> {
    match fields.get(name) {
        Some(TokenType::Number(n, _)) => Some(*n),
        Some(TokenType::Percent(p)) => Some(*p),
        Some(TokenType::Money(m, _)) => Some(*m),
        Some(TokenType::Text(t)) => Some(t.len() as f64),
        Some(TokenType::DynamicType(n, _)) => Some(*n),
        _ => None,
    }
}

/// the value a behaviour computes from the NAMED fields (None = decline)
pub fn behave(b: &Behaviour, n: f64, k: f64) -> Option<V> {
    match b {
        Behaviour::DeclineAlways => None,
        Behaviour::DeclineOdd(c) => {
            if (n as i64) % 2 != 0 {
                None
            } else {
                Some(V::Num(*c as f64 + 2.0 * n + 3.0 * k, NT::Decimal))
            }
        }
        Behaviour::Number(c) => Some(V::Num(*c as f64 + 2.0 * n + 3.0 * k, NT::Decimal)),
        Behaviour::Money => Some(V::Money(n + k, "USD".into())),
        Behaviour::Percent => Some(V::Pct(n + k)),
        Behaviour::Duration => Some(V::Dur((n + k) as i64, 0)),
    }
}

impl RuleTrait for GenRule {
    fn name(&self) -> String {
        RULE_NAMES[self.spec.name as usize % RULE_NAMES.len()].to_string()
    }
    fn call(&self, config: &SmartCalcConfig, fields: &BTreeMap<String, TokenType>) -> Option<TokenType> {
        let n = field_value(fields, "n")?;
        let k = field_value(fields, "k").unwrap_or(0.0);
        match behave(&self.spec.behaviour, n, k)? {
            V::Num(v, _) => Some(TokenType::Number(v, NumberType::Decimal)),
            V::Money(v, _) => Some(TokenType::Money(v, config.get_currency("usd".to_string())?)),
            V::Pct(v) => Some(TokenType::Percent(v)),
            V::Dur(s, _) => Some(TokenType::Duration(chrono::Duration::seconds(s))),
            _ => None,
        }
    }
}

#[derive(Clone, Debug, PartialEq, Serialize, Deserialize)]
pub struct ItemSpec {
    pub family: u8,
    pub index: u8,
    pub unit: u8,
    /// factor to the item below (downgrade) and to the item above (upgrade)
    pub down: u8,
    pub up: u8,
    /// names of the unit: 0 one name, 1 [name, alias], 2 [alias, name] (the alias is "a" + name, so 1 is NOT in
    /// alphabetical order and 2 is)
    #[serde(default)]
    pub names: u8,
    /// constant added by the upgrade code (`{value} / up + offset`): a declared code is applied as it stands, to 0 as well
    #[serde(default)]
    pub offset: u8,
    /// the downgrade code mentions the placeholder twice: `({value} + {value}) * d / 2` (= `{value} * d`)
    #[serde(default)]
    pub twice: bool,
}

fn alias(unit: &str) -> String {
    format!("a{}", unit)
}

impl ItemSpec {
    fn unit(&self) -> &'static str {
        UNIT_NAMES[self.unit as usize % UNIT_NAMES.len()]
    }
    fn all_names(&self) -> Vec<String> {
        let u = self.unit().to_string();
        match self.names % 3 {
            0 => vec![u],
            1 => vec![u.clone(), alias(&u)],
            _ => vec![alias(&u), u],
        }
    }
    /// the name a line uses: the alias when the unit has one and `pick` is odd
    fn written(&self, pick: u32) -> String {
        if self.names % 3 != 0 && pick % 2 == 1 {
            alias(self.unit())
        } else {
            self.unit().to_string()
        }
    }
}

#[derive(Clone, Debug, Serialize, Deserialize)]
pub enum Op {
    /// language: 0 en, 1 tr, 2 unknown
    AddRule(u8, RuleSpec),
    DeleteRule(u8, u8),
    AddType(u8),
    AddItem(ItemSpec),
    /// evaluate a probe of registered pattern number i (mod count) with values
    Probe(u8, u32, u32),
    /// convert between two items of a family
    ConvertProbe(u8, u8, u8, u32),
    /// set_date_rule(language, the patterns the language already has): a configuration call that changes nothing - in
    /// particular it leaves the registered rules alone
    ResetDateRule(u8),
}

#[derive(Clone, Debug, Serialize, Deserialize)]
pub struct History {
    pub ops: Vec<Op>,
}

fn lang_of(l: u8) -> &'static str {
    match l % 3 {
        0 => "en",
        1 => "tr",
        _ => "xx",
    }
}

fn register_rule(calc: &mut SmartCalc, lang: &str, spec: &RuleSpec) -> Result<bool, String> {
    let rule: Rc<dyn RuleTrait> = Rc::new(GenRule { spec: spec.clone() });
    let patterns: Vec<String> = spec.patterns.iter().map(|p| p.text(lang)).collect();
    guarded(|| calc.add_rule(lang.to_string(), patterns, rule)).map_err(|p| format!("add_rule panicked at {}: {}", p.site, p.message))
}

fn register_item(calc: &mut SmartCalc, it: &ItemSpec) -> Result<bool, String> {
    let fam = FAMILY_NAMES[it.family as usize % FAMILY_NAMES.len()];
    let unit = UNIT_NAMES[it.unit as usize % UNIT_NAMES.len()];
    let format = format!("{{value}} {}", unit);
    let names = it.all_names();
    let parse: Vec<String> = names.iter().map(|n| format!("{{NUMBER:value}} {{TEXT:type:{}}}", n)).collect();
    let up = if it.offset == 0 { format!("{{value}} / {}", it.up.max(2)) } else { format!("{{value}} / {} + {}", it.up.max(2), it.offset) };
    let down = if it.twice { format!("({{value}} + {{value}}) * {} / 2", it.down.max(2)) } else { format!("{{value}} * {}", it.down.max(2)) };
    guarded(|| calc.add_dynamic_type_item(fam.to_string(), it.index as usize, format, parse, up, down, names, None, None, None)).map_err(|p| format!("add_dynamic_type_item panicked at {}: {}", p.site, p.message))
}

/// the model of what has been registered successfully, in order
#[derive(Clone, Debug, Default)]
struct Model {
    /// (language, spec) of live API rules in registration order
    rules: Vec<(String, RuleSpec)>,
    /// every pattern ever registered (also of deleted rules): (language, pattern)
    patterns_seen: Vec<(String, Pattern)>,
    families: Vec<String>,
    items: Vec<ItemSpec>,
    /// replay log of successful registrations (for the fresh calculator)
    log: Vec<Reg>,
}

#[derive(Clone, Debug)]
enum Reg {
    Rule(String, RuleSpec, u64),
    Type(String),
    Item(ItemSpec),
}

/// `families_first`: the families and their items are registered before the rules (each kind in its own order)
fn build_fresh(m: &Model, deleted: &std::collections::BTreeSet<u64>, families_first: bool) -> Result<SmartCalc, String> {
    let mut c = build_calc(&Cfg::default());
    let mut log: Vec<&Reg> = m.log.iter().collect();
    if families_first {
        log.sort_by_key(|r| matches!(r, Reg::Rule(..)));
    }
    for r in log {
        match r {
            Reg::Rule(lang, spec, id) => {
                if !deleted.contains(id) {
                    register_rule(&mut c, lang, spec)?;
                }
            }
            Reg::Type(name) => {
                c.add_dynamic_type(name.clone());
            }
            Reg::Item(it) => {
                register_item(&mut c, it)?;
            }
        }
    }
    Ok(c)
}

/// effect: when exactly one live rule can match this line, the line evaluates to what that rule's behaviour computes
/// from the NAMED fields; a declining rule leaves the line exactly as on a calculator without any rule
fn effect(_calc: &SmartCalc, plain: &SmartCalc, m: &Model, lang: &str, p: &Pattern, nv: u32, kv: u32, got: &Slot) -> Result<(), String> {
    let line = p.line(lang, nv, kv);
    // every live pattern of that language that shares a keyword with the probe's pattern
    let kws = |q: &Pattern| -> Vec<u8> {
        if q.is_generic() {
            return vec![];
        }
        let mut v = vec![q.kw % KEYWORDS.len() as u8];
        if q.has_k() && q.layout % 6 == 3 {
            v.push(q.kw2 % KEYWORDS.len() as u8);
        }
        v
    };
    let mine = kws(p);
    let sharing: Vec<(&RuleSpec, &Pattern)> = m.rules.iter().filter(|(lg, _)| *lg == lang).flat_map(|(_, s)| s.patterns.iter().map(move |q| (s, q))).filter(|(_, q)| kws(q).iter().any(|k| mine.contains(k))).collect();
    let candidates: Vec<&RuleSpec> = sharing.iter().map(|(s, _)| *s).collect();
    // a quantity field is filled when the unit on the line is registered, in the family the field asks for
    let unit_field = match &p.n {
        Field::Unit(fam, u) => Some(m.items.iter().any(|x| x.unit % UNIT_NAMES.len() as u8 == *u % UNIT_NAMES.len() as u8 && fam.map_or(true, |f| f % FAMILY_NAMES.len() as u8 == x.family % FAMILY_NAMES.len() as u8))),
        _ => None,
    };
    if unit_field == Some(false) {
        return Ok(());
    }
    if sharing.len() == 1 && *sharing[0].1 == *p && p.n != Field::Text {
        let spec = candidates[0];
        let n = nv as f64;
        let k = if p.has_k() { kv as f64 } else { 0.0 };
        match behave(&spec.behaviour, n, k) {
            Some(exp) => {
                let ok = match (got, &exp) {
                    (Slot::Ok { v: V::Num(a, _), .. }, V::Num(e, _)) => close(*a, *e),
                    (Slot::Ok { v: V::Money(a, c), .. }, V::Money(e, ec)) => close(*a, *e) && c == ec,
                    (Slot::Ok { v: V::Pct(a), .. }, V::Pct(e)) => close(*a, *e),
                    (Slot::Ok { v: V::Dur(a, _), .. }, V::Dur(e, _)) => a == e,
                    _ => false,
                };
                if !ok {
                    return Err(format!("[{}] {:?} should evaluate to what rule {} returns ({:?} from n={}, k={}), got {}", lang, line, RULE_NAMES[spec.name as usize % 4], exp, n, k, got.brief()));
                }
            }
            None if unit_field.is_none() => {
                let base = eval_on(plain, lang, &line).ok().and_then(|o| o.slots.into_iter().next()).unwrap_or(Slot::Nothing);
                if !base.same(got) {
                    return Err(format!("[{}] {:?}: the rule declines, so the line should be as without the rule ({}), got {}", lang, line, base.brief(), got.brief()));
                }
            }
            None => {}
        }
    } else if candidates.is_empty() && unit_field.is_none() {
        let base = eval_on(plain, lang, &line).ok().and_then(|o| o.slots.into_iter().next()).unwrap_or(Slot::Nothing);
        if !base.same(got) {
            return Err(format!("[{}] {:?}: no live rule matches, so the line should be as on a calculator without rules ({}), got {}", lang, line, base.brief(), got.brief()));
        }
    }
    Ok(())
}

const BUILTIN_PANEL: [&str; 13] = [
    "1 + 2 * 3", "10 usd to try", "10% of 200", "5 km to m", "12/12/2020 + 1 day", "2 hours 30 minutes", "1 hour + 30 minutes", "90 seconds 45 seconds as minutes", "90 minutes as hours", "1 lb to oz", "2 m + 50 cm", "10:30 EST to CET",
    "0x10 to binary",
];

pub struct Registry;

impl Prop for Registry {
    type Case = History;
    fn shrink_iters(&self) -> u32 {
        300
    }
    fn name(&self) -> &'static str {
        "registry-history"
    }
    fn check(&self, w: &mut Worker, h: &History) -> Verdict {
        let mut calc = build_calc(&Cfg::default());
        let plain = build_calc(&Cfg::default());
        let mut m = Model::default();
        let mut live_ids: Vec<u64> = vec![]; // parallel to m.rules
        let mut deleted: std::collections::BTreeSet<u64> = Default::default();
        let mut next_id = 0u64;
        let mut acc = Acc::new();
        let mut rendered = String::new();
        let mut delete_then_probe = false;
        let mut deleted_patterns: Vec<(String, Pattern)> = vec![];
        let mut same_name_twice = false;
        let mut rejected_dup_then_convert = false;
        let mut rejected_dup = false;
        let mut builds = 0;

        let plain_ref = &plain;
        let mut differential = |calc: &SmartCalc, m: &Model, deleted: &std::collections::BTreeSet<u64>, acc: &mut Acc, w: &mut Worker, why: &str| {
            let (fresh, fresh_ff) = match (build_fresh(m, deleted, false), build_fresh(m, deleted, true)) {
                (Ok(c), Ok(d)) => (c, d),
                (Err(e), _) | (_, Err(e)) => {
                    acc.fail(e);
                    return;
                }
            };
            let mut panel: Vec<(String, String)> = BUILTIN_PANEL.iter().map(|s| ("en".to_string(), s.to_string())).collect();
            for (lang, p) in &m.patterns_seen {
                panel.push((lang.clone(), p.line(lang, 6, 4)));
                panel.push((lang.clone(), p.line(lang, 7, 1)));
            }
            for it in &m.items {
                let u = UNIT_NAMES[it.unit as usize % UNIT_NAMES.len()];
                for jt in &m.items {
                    if jt.family == it.family {
                        panel.push(("en".to_string(), format!("24 {} to {}", u, UNIT_NAMES[jt.unit as usize % UNIT_NAMES.len()])));
                        if it.names % 3 != 0 || jt.names % 3 != 0 {
                            panel.push(("en".to_string(), format!("24 {} to {}", it.written(1), jt.written(1))));
                        }
                    }
                }
                panel.push(("en".to_string(), format!("3 {} to km", u)));
                panel.push(("en".to_string(), format!("3 {} + 2 {}", u, u)));
            }
            // the built-in sentences are untouched by registrations that cannot match them: rules with fresh keywords
            // or always-declining generic rules, user families with fresh unit names (an operator-word rule may match `*`)
            let operator_word_rule = m.rules.iter().any(|(_, s)| s.patterns.iter().any(|q| !q.is_generic() && (q.kw % KEYWORDS.len() as u8 >= 8 || (q.layout % 6 == 3 && q.kw2 % KEYWORDS.len() as u8 >= 8))));
            if !operator_word_rule {
                for line in BUILTIN_PANEL.iter() {
                    w.count_eval(2);
                    match (eval_on(calc, "en", line), eval_on(plain_ref, "en", line)) {
                        (Ok(a), Ok(b)) => {
                            if a.slots.len() != b.slots.len() || !a.slots.iter().zip(b.slots.iter()).all(|(x, y)| x.same(y)) {
                                acc.fail(format!("{}: the built-in sentence {:?} gives {} with the registrations but {} on a plain calculator", why, line, a.slots.first().map(|s| s.brief()).unwrap_or_default(), b.slots.first().map(|s| s.brief()).unwrap_or_default()));
                                return;
                            }
                        }
                        (Err(p), _) | (_, Err(p)) => {
                            acc.fail(format!("{}: {:?} panicked at {}: {}", why, line, p.site, p.message));
                            return;
                        }
                    }
                }
            }
            for (lang, line) in panel {
                w.count_eval(3);
                let a = eval_on(calc, &lang, &line);
                for (fr, what) in [(&fresh, "in their order"), (&fresh_ff, "the families before the rules")] {
                    let b = eval_on(fr, &lang, &line);
                    match (&a, &b) {
                        (Ok(a), Ok(b)) => {
                            if a.slots.len() != b.slots.len() || !a.slots.iter().zip(b.slots.iter()).all(|(x, y)| x.same(y)) {
                                acc.fail(format!("{}: [{}] {:?} gives {} on the long-lived calculator but {} on a fresh calculator with only the surviving registrations ({})", why, lang, line, a.slots.first().map(|s| s.brief()).unwrap_or_default(), b.slots.first().map(|s| s.brief()).unwrap_or_default(), what));
                                return;
                            }
                        }
                        (Err(p), _) | (_, Err(p)) => {
                            acc.fail(format!("{}: [{}] {:?} panicked at {}: {}", why, lang, line, p.site, p.message));
                            return;
                        }
                    }
                }
            }
        };

        for op in &h.ops {
            match op {
                Op::AddRule(l, spec) => {
                    let lang = lang_of(*l);
                    rendered.push_str(&format!("add_rule({}, {:?}, {} {:?}); ", lang, spec.patterns.iter().map(|p| p.text(&lang)).collect::<Vec<_>>(), RULE_NAMES[spec.name as usize % 4], spec.behaviour));
                    let got = match register_rule(&mut calc, lang, spec) {
                        Ok(b) => b,
                        Err(e) => {
                            acc.fail(e);
                            break;
                        }
                    };
                    let expect = lang != "xx";
                    if got != expect {
                        acc.fail(format!("add_rule for language {:?} returned {}", lang, got));
                        break;
                    }
                    if got {
                        if m.rules.iter().any(|(lg, s)| lg == lang && s.name % 4 == spec.name % 4) {
                            same_name_twice = true;
                        }
                        m.rules.push((lang.to_string(), spec.clone()));
                        live_ids.push(next_id);
                        m.log.push(Reg::Rule(lang.to_string(), spec.clone(), next_id));
                        next_id += 1;
                        for p in &spec.patterns {
                            m.patterns_seen.push((lang.to_string(), p.clone()));
                        }
                    }
                }
                Op::DeleteRule(l, name) => {
                    let lang = lang_of(*l);
                    let nm = DELETE_NAMES[*name as usize % DELETE_NAMES.len()];
                    rendered.push_str(&format!("delete_rule({}, {}); ", lang, nm));
                    let got = match guarded(|| calc.delete_rule(lang.to_string(), nm.to_string())) {
                        Ok(b) => b,
                        Err(p) => {
                            acc.fail(format!("delete_rule panicked at {}: {}", p.site, p.message));
                            break;
                        }
                    };
                    // deletion removes the FIRST live rule of that name in that language
                    let pos = m.rules.iter().position(|(lg, s)| lg == lang && RULE_NAMES[s.name as usize % 4] == nm);
                    if got != pos.is_some() {
                        acc.fail(format!("delete_rule({}, {}) returned {} but {} rule of that name is registered", lang, nm, got, if pos.is_some() { "a" } else { "no" }));
                        break;
                    }
                    if pos.is_none() && (*name as usize % DELETE_NAMES.len()) >= 4 {
                        builds += 1;
                        differential(&calc, &m, &deleted, &mut acc, w, "after deleting a name nobody registered");
                    }
                    if let Some(p) = pos {
                        let (lg, spec) = m.rules.remove(p);
                        let id = live_ids.remove(p);
                        deleted.insert(id);
                        for pt in &spec.patterns {
                            deleted_patterns.push((lg.clone(), pt.clone()));
                        }
                        builds += 1;
                        differential(&calc, &m, &deleted, &mut acc, w, "after the deletion");
                    }
                }
                Op::AddType(f) => {
                    let fam = FAMILY_NAMES[*f as usize % FAMILY_NAMES.len()];
                    rendered.push_str(&format!("add_dynamic_type({}); ", fam));
                    let got = match guarded(|| calc.add_dynamic_type(fam.to_string())) {
                        Ok(b) => b,
                        Err(p) => {
                            acc.fail(format!("add_dynamic_type panicked at {}: {}", p.site, p.message));
                            break;
                        }
                    };
                    let expect = !m.families.iter().any(|x| x == fam);
                    if got != expect {
                        acc.fail(format!("add_dynamic_type({}) returned {}, expected {}", fam, got, expect));
                        break;
                    }
                    if got {
                        m.families.push(fam.to_string());
                        m.log.push(Reg::Type(fam.to_string()));
                    } else {
                        rejected_dup = true;
                    }
                }
                Op::AddItem(it) => {
                    let fam = FAMILY_NAMES[it.family as usize % FAMILY_NAMES.len()];
                    rendered.push_str(&format!("add_dynamic_type_item({}, {}, {:?}, up /{}{}, down *{}); ", fam, it.index, it.all_names(), it.up.max(2), if it.offset > 0 { format!(" +{}", it.offset) } else { String::new() }, it.down.max(2)));
                    // a unit name is used by one item only (fresh names are the author's obligation)
                    if m.items.iter().any(|x| x.unit % UNIT_NAMES.len() as u8 == it.unit % UNIT_NAMES.len() as u8) {
                        continue;
                    }
                    let got = match register_item(&mut calc, it) {
                        Ok(b) => b,
                        Err(e) => {
                            acc.fail(e);
                            break;
                        }
                    };
                    let family_known = m.families.iter().any(|x| x == fam);
                    let index_taken = m.items.iter().any(|x| FAMILY_NAMES[x.family as usize % FAMILY_NAMES.len()] == fam && x.index == it.index);
                    let expect = family_known && !index_taken;
                    if got != expect {
                        acc.fail(format!("add_dynamic_type_item({}, {}) returned {}, expected {} (family known: {}, index taken: {})", fam, it.index, got, expect, family_known, index_taken));
                        break;
                    }
                    if got {
                        m.items.push(it.clone());
                        m.log.push(Reg::Item(it.clone()));
                    } else {
                        rejected_dup = true;
                    }
                }
                Op::Probe(i, nv, kv) => {
                    if m.patterns_seen.is_empty() {
                        continue;
                    }
                    let (lang, p) = m.patterns_seen[*i as usize % m.patterns_seen.len()].clone();
                    let line = p.line(&lang, *nv, *kv);
                    rendered.push_str(&format!("[{}] {:?}; ", lang, line));
                    w.count_eval(2);
                    let got = match eval_on(&calc, &lang, &line) {
                        Ok(o) => o.slots.into_iter().next().unwrap_or(Slot::Nothing),
                        Err(pn) => {
                            acc.fail(format!("panic at {}: {}", pn.site, pn.message));
                            break;
                        }
                    };
                    if deleted_patterns.iter().any(|(lg, dp)| *lg == lang && *dp == p) {
                        delete_then_probe = true;
                    }
                    if let Err(e) = effect(&calc, &plain, &m, &lang, &p, *nv, *kv, &got) {
                        acc.fail(e);
                        break;
                    }
                }
                Op::ResetDateRule(l) => {
                    let lang = lang_of(*l);
                    rendered.push_str(&format!("set_date_rule({}, <its default patterns>); ", lang));
                    let patterns: Vec<String> = match lang {
                        "en" => vec!["{MONTH:month} {NUMBER:day}, {NUMBER:year}", "{MONTH:month} {NUMBER:day} {NUMBER:year}", "{NUMBER:day}/{NUMBER:month}/{NUMBER:year}", "{NUMBER:day} {MONTH:month} {NUMBER:year}", "{NUMBER:day} {MONTH:month}"],
                        "tr" => vec!["{NUMBER:day}/{NUMBER:month}/{NUMBER:year}", "{NUMBER:day} {MONTH:month} {NUMBER:year}", "{NUMBER:day} {MONTH:month}"],
                        _ => vec![],
                    }
                    .into_iter()
                    .map(|s| s.to_string())
                    .collect();
                    if patterns.is_empty() {
                        continue;
                    }
                    if let Err(p) = guarded(|| calc.set_date_rule(lang, patterns)) {
                        acc.fail(format!("set_date_rule panicked at {}: {}", p.site, p.message));
                        break;
                    }
                    builds += 1;
                    differential(&calc, &m, &deleted, &mut acc, w, "after set_date_rule with the default patterns");
                }
                Op::ConvertProbe(f, i, j, amount) => {
                    let fam = FAMILY_NAMES[*f as usize % FAMILY_NAMES.len()];
                    let mut items: Vec<&ItemSpec> = m.items.iter().filter(|x| FAMILY_NAMES[x.family as usize % FAMILY_NAMES.len()] == fam).collect();
                    items.sort_by_key(|x| x.index);
                    // contiguous chain starting at the family's lowest index (0, 1 or higher)
                    let base_index = items.first().map_or(1, |x| x.index as usize);
                    let chain: Vec<&ItemSpec> = items.iter().enumerate().take_while(|(k, x)| x.index as usize == k + base_index).map(|(_, x)| *x).collect();
                    if chain.len() < 2 {
                        continue;
                    }
                    let a = *i as usize % chain.len();
                    let b = *j as usize % chain.len();
                    let ua = chain[a].written(*amount / 2);
                    let ub = chain[b].written(*amount);
                    let line = format!("{} {} to {}", amount, ua, ub);
                    rendered.push_str(&format!("{:?}; ", line));
                    if rejected_dup {
                        rejected_dup_then_convert = true;
                    }
                    // product of the declared link factors
                    let mut exp = *amount as f64;
                    if a < b {
                        for x in &chain[a..b] {
                            exp = exp / x.up.max(2) as f64 + x.offset as f64;
                        }
                    } else {
                        for x in chain[b + 1..=a].iter().rev() {
                            exp *= x.down.max(2) as f64;
                        }
                    }
                    w.count_eval(1);
                    match eval_on(&calc, "en", &line) {
                        Ok(o) => match o.slots.first() {
                            Some(Slot::Ok { v: V::Unit(x, g, idx), .. }) => {
                                if g != fam || *idx != chain[b].index as usize || !close(*x, exp) {
                                    acc.fail(format!("{:?}: expected {} {}#{} got {} {}#{}", line, exp, fam, chain[b].index, x, g, idx));
                                    break;
                                }
                            }
                            other => {
                                acc.fail(format!("{:?}: expected {} {} got {:?}", line, exp, ub, other.map(|s| s.brief())));
                                break;
                            }
                        },
                        Err(pn) => {
                            acc.fail(format!("panic at {}: {}", pn.site, pn.message));
                            break;
                        }
                    }
                }
            }
            if !acc.ok() {
                break;
            }
        }
        // at the end: every live pattern has its effect, whatever was registered before or after its rule
        let mut unit_rule_before_family = false;
        if acc.ok() {
            let live: Vec<(String, Pattern)> = m.rules.iter().flat_map(|(lg, s)| s.patterns.iter().map(move |q| (lg.clone(), q.clone()))).collect();
            for (lang, p) in live {
                for (nv, kv) in [(8u32, 2u32), (7, 1)] {
                    let line = p.line(&lang, nv, kv);
                    w.count_eval(2);
                    match eval_on(&calc, &lang, &line) {
                        Ok(o) => {
                            let got = o.slots.into_iter().next().unwrap_or(Slot::Nothing);
                            if let Err(e) = effect(&calc, &plain, &m, &lang, &p, nv, kv, &got) {
                                acc.fail(format!("at the end of the history: {}", e));
                            }
                        }
                        Err(pn) => acc.fail(format!("[{}] {:?} panicked at {}: {}", lang, line, pn.site, pn.message)),
                    }
                    if !acc.ok() {
                        break;
                    }
                }
                if let Field::Unit(Some(f), _) = p.n {
                    // was the rule registered before its family?
                    let fam = FAMILY_NAMES[f as usize % FAMILY_NAMES.len()];
                    let rule_at = m.log.iter().position(|r| matches!(r, Reg::Rule(_, s, id) if !deleted.contains(id) && s.patterns.contains(&p)));
                    let fam_at = m.log.iter().position(|r| matches!(r, Reg::Type(n) if n == fam));
                    if let (Some(a), Some(b)) = (rule_at, fam_at) {
                        unit_rule_before_family |= a < b;
                    }
                }
                if !acc.ok() {
                    break;
                }
            }
        }
        if acc.ok() {
            builds += 1;
            differential(&calc, &m, &deleted, &mut acc, w, "at the end of the history");
        }
        let _ = builds;
        acc.finish(rendered).nt(delete_then_probe || same_name_twice || rejected_dup_then_convert).class_if(delete_then_probe, "deleted-rule-probed-afterwards").class_if(same_name_twice, "two-rules-of-equal-name").class_if(rejected_dup_then_convert, "rejected-duplicate-then-conversion").class_if(!m.items.is_empty(), "has-user-family").class_if(unit_rule_before_family, "rule-over-a-user-family-registered-before-the-family").class_if(m.items.iter().any(|x| x.names % 3 == 1), "unit-with-names-not-in-alphabetical-order").class_if(m.rules.iter().any(|(l, _)| l == "tr"), "rule-in-tr")
    }
}

// ---- strategies --------------------------------------------------------------------------------

pub fn pattern_strategy() -> impl Strategy<Value = Pattern> {
    (0u8..10, 0u8..4, prop_oneof![5 => Just(Field::Number), 1 => Just(Field::Percent), 1 => Just(Field::Money), 1 => Just(Field::Text), 1 => (prop::option::weighted(0.7, 0u8..3), 0u8..10).prop_map(|(f, u)| Field::Unit(f, u))], 0u8..8).prop_map(|(kw, layout, n, kw2)| Pattern { kw, layout, n, kw2: if kw2 == kw { (kw2 + 1) % 8 } else { kw2 }, kcase: (kw2 / 3) % 3 })
}

pub fn rule_strategy() -> impl Strategy<Value = RuleSpec> {
    let beh = prop_oneof![1 => Just(Behaviour::DeclineAlways), 2 => (0u8..50).prop_map(Behaviour::DeclineOdd), 4 => (0u8..50).prop_map(Behaviour::Number), 1 => Just(Behaviour::Money), 1 => Just(Behaviour::Percent), 1 => Just(Behaviour::Duration)];
    prop_oneof![
        9 => (0u8..4, prop::collection::vec(pattern_strategy(), 1..=3), beh).prop_map(|(name, patterns, behaviour)| RuleSpec { name, patterns, behaviour }),
        // a rule whose patterns have no keyword (`{NUMBER:n} {TEXT:t}`): it matches every `number word` line and always declines
        1 => (0u8..4, prop::collection::vec((4u8..6, any::<bool>()), 1..=2)).prop_map(|(name, ls)| RuleSpec { name, patterns: ls.into_iter().map(|(layout, money)| Pattern { kw: 0, layout, n: if money { Field::Money } else { Field::Number }, kw2: 1, kcase: 0 }).collect(), behaviour: Behaviour::DeclineAlways }),
    ]
}

pub fn op_strategy() -> impl Strategy<Value = Op> {
    prop_oneof![
        5 => (prop_oneof![6 => Just(0u8), 2 => Just(1u8), 1 => Just(2u8)], rule_strategy()).prop_map(|(l, r)| Op::AddRule(l, r)),
        3 => (prop_oneof![6 => Just(0u8), 2 => Just(1u8), 1 => Just(2u8)], prop_oneof![4 => 0u8..4, 1 => 4u8..12]).prop_map(|(l, n)| Op::DeleteRule(l, n)),
        2 => (0u8..3).prop_map(Op::AddType),
        4 => (0u8..3, 0u8..=5, 0u8..10, 2u8..=12, 2u8..=12, prop_oneof![2 => Just(0u8), 1 => Just(1u8), 1 => Just(2u8)]).prop_map(|(family, index, unit, down, up, names)| Op::AddItem(ItemSpec { family, index, unit, down, up, names, offset: if (down + up) % 4 == 0 { 32 } else { 0 }, twice: down % 3 == 0 })),
        6 => (any::<u8>(), 0u32..40, 0u32..40).prop_map(|(i, n, k)| Op::Probe(i, n, k)),
        3 => (0u8..3, any::<u8>(), any::<u8>(), prop_oneof![1 => Just(0u32), 6 => 1u32..1000]).prop_map(|(f, i, j, a)| Op::ConvertProbe(f, i, j, a)),
        1 => (0u8..2).prop_map(Op::ResetDateRule),
    ]
}

/// a rule scenario: registrations (names from a small pool so that duplicates occur), probes,
/// deletions, probes of what was deleted, re-registration
fn rule_block() -> impl Strategy<Value = Vec<Op>> {
    let lang = || prop_oneof![7 => Just(0u8), 2 => Just(1u8), 1 => Just(2u8)];
    (
        prop::collection::vec((lang(), rule_strategy()), 1..=4),
        prop::collection::vec((any::<u8>(), 0u32..40, 0u32..40), 1..=4),
        prop::collection::vec((lang(), prop_oneof![5 => 0u8..4, 1 => 4u8..12]), 1..=3),
        prop::collection::vec((any::<u8>(), 0u32..40, 0u32..40), 2..=6),
        prop::option::of((lang(), rule_strategy())),
    )
        .prop_map(|(adds, probes1, dels, probes2, readd)| {
            let mut ops: Vec<Op> = adds.into_iter().map(|(l, r)| Op::AddRule(l, r)).collect();
            // (one block in four re-sets the default date patterns of a language after the registrations)
            if let Some((i, _, k)) = probes1.first() {
                if (*i as u32 + *k) % 4 == 0 {
                    ops.push(Op::ResetDateRule((*k % 2) as u8));
                }
            }
            ops.extend(probes1.into_iter().map(|(i, n, k)| Op::Probe(i, n, k)));
            ops.extend(dels.into_iter().map(|(l, n)| Op::DeleteRule(l, n)));
            ops.extend(probes2.into_iter().map(|(i, n, k)| Op::Probe(i, n, k)));
            if let Some((l, r)) = readd {
                ops.push(Op::AddRule(l, r));
                ops.push(Op::Probe(255, 8, 2));
            }
            ops
        })
}

/// a family scenario: the family (sometimes registered twice), items 1..m in order with a duplicate
/// index thrown in, conversions in both directions
fn family_block() -> impl Strategy<Value = Vec<Op>> {
    let unit_rule = prop::option::weighted(0.5, (0u8..8, 0u8..3, 0usize..5, 0u8..50, any::<bool>(), prop::bool::weighted(0.8), 0u8..4));
    (0u8..3, any::<bool>(), 2usize..=5, prop::collection::vec((2u8..=12, 2u8..=12, prop_oneof![2 => Just(0u8), 1 => Just(1u8), 1 => Just(2u8)]), 5), 0u8..10, prop::option::of((1u8..=5, 0u8..10)), prop::collection::vec((any::<u8>(), any::<u8>(), prop_oneof![1 => Just(0u32), 6 => 1u32..1000]), 1..=4), prop_oneof![3 => Just(1u8), 2 => Just(0u8), 1 => Just(3u8)], unit_rule).prop_map(|(family, twice, m, factors, unit0, dup, convs, base, unit_rule)| {
        // a rule over quantities of this family, registered before the family exists or after its items
        let rule = unit_rule.map(|(kw, layout, item, c, before, filtered, name)| {
            let spec = RuleSpec { name, patterns: vec![Pattern { kw, layout, n: Field::Unit(if filtered { Some(family) } else { None }, (unit0 + (item % m) as u8) % 10), kw2: (kw + 1) % 8, kcase: 0 }], behaviour: Behaviour::Number(c) };
            (before, Op::AddRule(0, spec))
        });
        let mut ops = vec![];
        if let Some((true, r)) = &rule {
            ops.push(r.clone());
        }
        ops.push(Op::AddType(family));
        if twice {
            ops.push(Op::AddType(family));
        }
        for i in 0..m {
            ops.push(Op::AddItem(ItemSpec { family, index: i as u8 + base, unit: (unit0 + i as u8) % 10, down: factors[i].0, up: factors[i].1, names: factors[i].2, offset: if (factors[i].0 + factors[i].1) % 4 == 0 { 32 } else { 0 }, twice: factors[i].0 % 3 == 0 }));
            if let Some((di, du)) = dup {
                if di as usize == i + 1 {
                    ops.push(Op::AddItem(ItemSpec { family, index: i as u8 + base, unit: (unit0 + 5 + du) % 10, down: 9, up: 9, names: 0, offset: 0, twice: false }));
                }
            }
        }
        if let Some((false, r)) = &rule {
            ops.push(r.clone());
        }
        ops.extend(convs.into_iter().map(|(i, j, a)| Op::ConvertProbe(family, i, j, a)));
        ops
    })
}

pub fn history_strategy(max: usize) -> impl Strategy<Value = History> {
    prop_oneof![
        2 => prop::collection::vec(op_strategy(), 1..max).prop_map(|ops| History { ops }),
        3 => rule_block().prop_map(|ops| History { ops }),
        2 => family_block().prop_map(|ops| History { ops }),
        3 => (rule_block(), family_block(), prop::collection::vec(op_strategy(), 0..4), any::<bool>()).prop_map(|(a, b, extra, order)| {
            let mut ops = if order { a.clone() } else { b.clone() };
            ops.extend(extra);
            ops.extend(if order { b } else { a });
            History { ops }
        }),
    ]
}

pub fn regressions() -> Vec<History> {
    let p = |kw: u8, layout: u8| Pattern { kw, layout, n: Field::Number, kw2: (kw + 1) % 8, kcase: 0 };
    vec![
        // register, probe, delete, probe
        History { ops: vec![Op::AddRule(0, RuleSpec { name: 0, patterns: vec![p(0, 0)], behaviour: Behaviour::Number(5) }), Op::Probe(0, 7, 0), Op::DeleteRule(0, 0), Op::Probe(0, 7, 0), Op::DeleteRule(0, 0)] },
        // two rules of equal name: deletion removes the first
        History { ops: vec![Op::AddRule(0, RuleSpec { name: 1, patterns: vec![p(1, 0)], behaviour: Behaviour::Number(1) }), Op::AddRule(0, RuleSpec { name: 1, patterns: vec![p(2, 1)], behaviour: Behaviour::Number(2) }), Op::DeleteRule(0, 1), Op::Probe(0, 4, 0), Op::Probe(1, 4, 0)] },
        // fields are bound by name: n and k
        History { ops: vec![Op::AddRule(0, RuleSpec { name: 2, patterns: vec![p(3, 2), p(4, 3)], behaviour: Behaviour::Number(0) }), Op::Probe(0, 10, 1), Op::Probe(1, 10, 1)] },
        // unknown language (F04)
        History { ops: vec![Op::AddRule(2, RuleSpec { name: 0, patterns: vec![p(0, 0)], behaviour: Behaviour::Number(5) }), Op::DeleteRule(2, 0)] },
        // a rule over quantities of a user family, registered before the family
        History { ops: vec![Op::AddRule(0, RuleSpec { name: 0, patterns: vec![Pattern { kw: 0, layout: 0, n: Field::Unit(Some(0), 0), kw2: 1, kcase: 0 }], behaviour: Behaviour::Number(5) }), Op::AddType(0), Op::AddItem(ItemSpec { family: 0, index: 1, unit: 0, down: 2, up: 3, names: 1, offset: 0, twice: false }), Op::AddItem(ItemSpec { family: 0, index: 2, unit: 1, down: 2, up: 3, names: 2, offset: 0, twice: false }), Op::Probe(0, 6, 0), Op::ConvertProbe(0, 0, 1, 24), Op::ConvertProbe(0, 1, 0, 5), Op::ConvertProbe(0, 0, 1, 9), Op::ConvertProbe(0, 1, 0, 10)] },
        // a user family, duplicates rejected, conversion both ways
        History { ops: vec![Op::AddType(0), Op::AddType(0), Op::AddItem(ItemSpec { family: 0, index: 1, unit: 0, down: 2, up: 3, names: 0, offset: 0, twice: false }), Op::AddItem(ItemSpec { family: 0, index: 2, unit: 1, down: 3, up: 4, names: 0, offset: 0, twice: false }), Op::AddItem(ItemSpec { family: 0, index: 2, unit: 2, down: 9, up: 9, names: 0, offset: 0, twice: false }), Op::AddItem(ItemSpec { family: 0, index: 3, unit: 3, down: 4, up: 5, names: 0, offset: 0, twice: false }), Op::AddItem(ItemSpec { family: 1, index: 1, unit: 4, down: 2, up: 2, names: 0, offset: 0, twice: false }), Op::ConvertProbe(0, 0, 2, 24), Op::ConvertProbe(0, 2, 0, 2), Op::ConvertProbe(0, 1, 0, 5)] },
    ]
}

// ---- a user family that re-uses the name of a built-in unit ------------------------------------------

/// A user-defined family may call one of its units like a built-in unit (a fluid ounce `oz`, a minute `m`).
/// Conversions and arithmetic between BUILT-IN units written with an unambiguous built-in source unit (1 lb to oz,
/// 1 km to m) stay what the unit definitions say: the family converts along its own chain, it does not take over
/// the built-in ones.
#[derive(Clone, Debug, Serialize, Deserialize)]
pub struct Collision {
    pub family: String,
    pub reused: String,
    pub own: String,
    /// index of the re-used name inside the family (1 or 2)
    pub at: u8,
}

pub struct NameCollision;

/// (the last six: a magnitude suffix glued to a literal stays a magnitude suffix when a family has a unit of that name)
const COLLISION_LINES: [&str; 18] = ["1 lb to oz", "1 kg to oz", "1 stone to oz", "1 km to m", "5 cm to m", "1 mile to m", "2 km + 50 cm", "1 kg + 500 g", "1 gb to byte", "1 kb to bit", "1 lb to g", "12 inch to cm", "2T", "2T + 1", "3 * (1T - 2k)", "5k", "1M + 1k", "total = 5T / 2"];

impl Prop for NameCollision {
    type Case = Collision;
    fn shrink_iters(&self) -> u32 {
        100
    }
    fn name(&self) -> &'static str {
        "family-reusing-a-built-in-unit-name"
    }
    fn check(&self, w: &mut Worker, c: &Collision) -> Verdict {
        let rendered = format!("family {:?}: units {:?}", c.family, if c.at == 1 { vec![c.reused.clone(), c.own.clone()] } else { vec![c.own.clone(), c.reused.clone()] });
        let plain = build_calc(&Cfg::default());
        let mut calc = build_calc(&Cfg::default());
        let reg = guarded(|| {
            let mut ok = calc.add_dynamic_type(c.family.clone());
            let names = if c.at == 1 { [&c.reused, &c.own] } else { [&c.own, &c.reused] };
            for (k, n) in names.iter().enumerate() {
                ok &= calc.add_dynamic_type_item(c.family.clone(), k + 1, format!("{{value}} {}", n), vec![format!("{{NUMBER:value}} {{TEXT:type:{}}}", n)], "{value} / 3".to_string(), "{value} * 3".to_string(), vec![n.to_string()], None, None, None);
            }
            ok
        });
        match reg {
            Ok(true) => {}
            Ok(false) => return Verdict::fail("registration of a fresh family was rejected".into(), rendered),
            Err(p) => return Verdict::fail(format!("registration panicked at {}: {}", p.site, p.message), rendered),
        }
        let mut acc = Acc::new();
        for line in COLLISION_LINES.iter() {
            // only lines whose SOURCE units are not the re-used name (that one is ambiguous by the user's own doing)
            if line.split(' ').any(|wd| wd == c.reused && !line.ends_with(&format!("to {}", c.reused))) {
                continue;
            }
            w.count_eval(2);
            match (eval_on(&calc, "en", line), eval_on(&plain, "en", line)) {
                (Ok(a), Ok(b)) => {
                    if !a.slots.iter().zip(b.slots.iter()).all(|(x, y)| x.same(y)) {
                        acc.fail(format!("{:?} gives {} once the family is registered, {} on a plain calculator", line, a.slots.first().map(|s| s.brief()).unwrap_or_default(), b.slots.first().map(|s| s.brief()).unwrap_or_default()));
                        break;
                    }
                }
                (Err(p), _) | (_, Err(p)) => {
                    acc.fail(format!("{:?} panicked at {}: {}", line, p.site, p.message));
                    break;
                }
            }
        }
        acc.finish(rendered).nt(true).class("user-family-reuses-a-built-in-unit-name")
    }
}

// ---- a pattern that is found but declined does not stop the later patterns of the same rule ------------

#[derive(Clone, Debug, Serialize, Deserialize)]
pub struct TwoPatterns {
    pub kw: u8,
    pub c: u8,
    pub n: u32,
    /// the generic (declining) pattern is registered first?
    pub generic_first: bool,
    pub lang: String,
}

struct DeclineWhenT(u8);
impl RuleTrait for DeclineWhenT {
    fn name(&self) -> String {
        "twopatterns".to_string()
    }
    fn call(&self, _config: &SmartCalcConfig, fields: &BTreeMap<String, TokenType>) -> Option<TokenType> {
        if fields.contains_key("t") {
            return None;
        }
        let n = field_value(fields, "n")?;
        Some(TokenType::Number(self.0 as f64 + 2.0 * n, NumberType::Decimal))
    }
}

pub struct DeclinedThenAccepted;

impl Prop for DeclinedThenAccepted {
    type Case = TwoPatterns;
    fn shrink_iters(&self) -> u32 {
        100
    }
    fn name(&self) -> &'static str {
        "declined-pattern-then-accepted-pattern"
    }
    fn check(&self, w: &mut Worker, c: &TwoPatterns) -> Verdict {
        let kw = keyword(c.kw % 8, &c.lang);
        let generic = "{NUMBER:n} {TEXT:t}".to_string();
        let keyed = format!("{} {{NUMBER:n}}", kw);
        let patterns = if c.generic_first { vec![generic, keyed] } else { vec![keyed, generic] };
        // `kw 6 waldo`: the generic pattern finds `6 waldo` and the rule declines it, the keyword pattern finds `kw 6`
        let line = format!("{} {} waldo", kw, c.n);
        let rendered = format!("add_rule({}, {:?}, declines when the field t is bound, else Number({} + 2n)); {:?}", c.lang, patterns, c.c, line);
        let mut calc = build_calc(&Cfg::default());
        let rule: Rc<dyn RuleTrait> = Rc::new(DeclineWhenT(c.c));
        match guarded(|| calc.add_rule(c.lang.clone(), patterns.clone(), rule)) {
            Ok(true) => {}
            Ok(false) => return Verdict::fail("add_rule returned false for a configured language".into(), rendered),
            Err(p) => return Verdict::fail(format!("add_rule panicked at {}: {}", p.site, p.message), rendered),
        }
        w.count_eval(1);
        let mut acc = Acc::new();
        let exp = c.c as f64 + 2.0 * c.n as f64;
        match eval_on(&calc, &c.lang, &line) {
            Ok(o) => match o.slots.first() {
                Some(Slot::Ok { v: V::Num(g, _), .. }) if close(*g, exp) => {}
                other => acc.fail(format!("{:?} should evaluate to {} (the keyword pattern accepts), got {:?}", line, exp, other.map(|s| s.brief()))),
            },
            Err(p) => acc.fail(format!("panic at {}: {}", p.site, p.message)),
        }
        acc.finish(rendered).nt(true).class("rule-with-a-declined-and-an-accepted-pattern").class_if(c.generic_first, "declined-pattern-registered-first")
    }
}

pub fn two_patterns_table() -> Vec<TwoPatterns> {
    let mut out = vec![];
    for kw in 0u8..8 {
        for (c, n) in [(0u8, 6u32), (5, 1), (9, 250)] {
            for generic_first in [true, false] {
                for lang in ["en", "tr"] {
                    out.push(TwoPatterns { kw, c, n, generic_first, lang: lang.to_string() });
                }
            }
        }
    }
    out
}

pub fn collision_table() -> Vec<Collision> {
    let mut out = vec![];
    for family in ["aardvark", "cooking", "clock", "kitchen", "zoo", "memory2"] {
        for reused in ["oz", "m", "g", "byte", "cm", "lb", "T", "k", "M"] {
            for at in [1u8, 2] {
                out.push(Collision { family: family.to_string(), reused: reused.to_string(), own: "zib".to_string(), at });
            }
        }
    }
    out
}

// ---- the result of a rule is a value like any other: converted to a base it is rounded --------------------

/// A rule may return a number typed in a base with a fractional value (`{NUMBER:n} third` -> n / 3 in n's base). The line
/// evaluates to the token the rule returns - and a base conversion that follows on the same line treats that token like any
/// other N: `0x5 third to hex` is 0x2 (1.67 rounded), whatever base the token already has.
#[derive(Clone, Debug, Serialize, Deserialize)]
pub struct ThirdCase {
    pub n: u32,
    pub base: u8,
    pub target: u8,
    pub to: bool,
}

struct ThirdRule;
impl RuleTrait for ThirdRule {
    fn name(&self) -> String {
        "third".to_string()
    }
    fn call(&self, _config: &SmartCalcConfig, fields: &BTreeMap<String, TokenType>) -> Option<TokenType> {
        match fields.get("n") {
            Some(TokenType::Number(n, ty)) => Some(TokenType::Number(*n / 3.0, ty.clone())),
            _ => None,
        }
    }
}

pub struct ConvertedRuleResult;

impl Prop for ConvertedRuleResult {
    type Case = ThirdCase;
    fn shrink_iters(&self) -> u32 {
        100
    }
    fn name(&self) -> &'static str {
        "rule-result-converted-to-a-base"
    }
    fn check(&self, w: &mut Worker, c: &ThirdCase) -> Verdict {
        let src = crate::c13::Src { n: c.n as u64, base: c.base, frac: None, prefix_upper: false, digit_case: 0, pad: 0 };
        let (tname, tbase) = crate::c13::TARGETS[c.target as usize % 5];
        let line = format!("{} third {}{}", src.text(), if c.to { "to " } else { "" }, tname);
        let rendered = format!("add_rule(en, [\"{{NUMBER:n}} third\"], n / 3 in n's base); {:?}", line);
        let mut calc = build_calc(&Cfg::default());
        let rule: Rc<dyn RuleTrait> = Rc::new(ThirdRule);
        match guarded(|| calc.add_rule("en".to_string(), vec!["{NUMBER:n} third".to_string()], rule)) {
            Ok(true) => {}
            Ok(false) => return Verdict::fail("add_rule returned false".into(), rendered),
            Err(p) => return Verdict::fail(format!("add_rule panicked at {}: {}", p.site, p.message), rendered),
        }
        w.count_eval(1);
        let out = match eval_on(&calc, "en", &line) {
            Ok(o) => o,
            Err(p) => return Verdict::fail(format!("panic at {}: {}", p.site, p.message), rendered),
        };
        // n is never a multiple of 3 plus 1.5: n / 3 has the fraction 0, 1/3 or 2/3 - no ties
        let want = (c.n as f64 / 3.0).round();
        let want_ty = match tbase {
            16 => NT::Hex,
            8 => NT::Octal,
            2 => NT::Binary,
            _ => NT::Decimal,
        };
        let mut acc = Acc::new();
        match out.slots.first() {
            Some(Slot::Ok { v: V::Num(g, ty), .. }) if *g == want && *ty == want_ty => {}
            other => acc.fail(format!("expected the base-{} number {} (a third of {} rounded), got {:?}", tbase, want, c.n, other.map(|s| s.brief()))),
        }
        acc.finish(rendered).nt(c.n % 3 != 0).class("rule-result-converted-to-a-base").class_if(c.base == tbase, "target-base-is-the-token's-own-base")
    }
}

pub fn third_table() -> Vec<ThirdCase> {
    let mut out = vec![];
    for n in [1u32, 2, 3, 4, 5, 7, 8, 10, 11, 14, 16, 254, 255, 256, 4097, 65534] {
        for base in [16u8, 8, 2, 10] {
            for target in 0..5u8 {
                out.push(ThirdCase { n, base, target, to: (n + target as u32) % 2 == 0 });
            }
        }
    }
    out
}

// ---- a number literal inside a pattern is a number, in whatever base the line writes it -----------------------

/// `{NUMBER:n} frob 2` matches `7 frob 2`, `7 frob 0b10`, `7 frob 0o2` and `7 frob 0x2` alike (and a pattern written
/// `... 0xFF` matches `... 255`): a literal in a pattern stands for its value
#[derive(Clone, Debug, Serialize, Deserialize)]
pub struct LiteralCase {
    /// the literal inside the pattern: value and base (10, 16, 8, 2)
    pub value: u32,
    pub pattern_base: u8,
    /// base in which the line writes that value
    pub line_base: u8,
    pub n: u32,
    pub n_base: u8,
}

struct PlusOneRule;
impl RuleTrait for PlusOneRule {
    fn name(&self) -> String {
        "plus one".to_string()
    }
    fn call(&self, _config: &SmartCalcConfig, fields: &BTreeMap<String, TokenType>) -> Option<TokenType> {
        match fields.get("n") {
            Some(TokenType::Number(n, _)) => Some(TokenType::Number(*n + 1000.0, NumberType::Decimal)),
            _ => None,
        }
    }
}

pub struct LiteralInPattern;

impl Prop for LiteralInPattern {
    type Case = LiteralCase;
    fn shrink_iters(&self) -> u32 {
        100
    }
    fn name(&self) -> &'static str {
        "number-literal-inside-a-pattern"
    }
    fn check(&self, w: &mut Worker, c: &LiteralCase) -> Verdict {
        let lit = |v: u32, base: u8| crate::c13::Src { n: v as u64, base, frac: None, prefix_upper: false, digit_case: 0, pad: 0 }.text();
        let pattern = format!("{{NUMBER:n}} frob {}", lit(c.value, c.pattern_base));
        let line = format!("{} frob {}", lit(c.n, c.n_base), lit(c.value, c.line_base));
        let rendered = format!("add_rule(en, [{:?}], n + 1000); {:?}", pattern, line);
        let mut calc = build_calc(&Cfg::default());
        let rule: Rc<dyn RuleTrait> = Rc::new(PlusOneRule);
        match guarded(|| calc.add_rule("en".to_string(), vec![pattern.clone()], rule)) {
            Ok(true) => {}
            Ok(false) => return Verdict::fail("add_rule returned false".into(), rendered),
            Err(p) => return Verdict::fail(format!("add_rule panicked at {}: {}", p.site, p.message), rendered),
        }
        w.count_eval(1);
        let out = match eval_on(&calc, "en", &line) {
            Ok(o) => o,
            Err(p) => return Verdict::fail(format!("panic at {}: {}", p.site, p.message), rendered),
        };
        let want = c.n as f64 + 1000.0;
        let mut acc = Acc::new();
        match out.slots.first() {
            Some(Slot::Ok { v: V::Num(g, _), .. }) if *g == want => {}
            other => acc.fail(format!("the line matches the pattern (the literal {} is {}), expected what the rule returns ({}), got {:?}", lit(c.value, c.line_base), c.value, want, other.map(|s| s.brief()))),
        }
        acc.finish(rendered).nt(c.pattern_base != c.line_base).class("number-literal-inside-a-pattern").class_if(c.pattern_base != c.line_base, "line-writes-the-literal-in-another-base")
    }
}

pub fn literal_table() -> Vec<LiteralCase> {
    let mut out = vec![];
    for value in [2u32, 7, 10, 255] {
        for pattern_base in [10u8, 16, 8, 2] {
            for line_base in [10u8, 16, 8, 2] {
                for (n, n_base) in [(7u32, 10u8), (18, 16), (5, 2)] {
                    out.push(LiteralCase { value, pattern_base, line_base, n, n_base });
                }
            }
        }
    }
    out
}

pub fn self_check() {
    let v = crate::vocab::vocab();
    for w in KEYWORDS.iter().chain(UNIT_NAMES.iter()).chain(RULE_NAMES.iter()) {
        if !v.is_safe_word(w) {
            eprintln!("INTERNAL: {:?} is not a safe word for this configuration", w);
            std::process::exit(3);
        }
    }
}

pub fn run(ctx: &Ctx) {
    self_check();
    ctx.rule("call histories of 1-14 operations on one calculator: add_rule(en|tr|unknown language, 1-3 patterns of fresh keywords - or no keyword at all for rules that always decline, or an operator word of the rule's own language (times/minus, kere/eksi) - and typed fields {NUMBER:n} {PERCENT:n} {MONEY:n} {TEXT:n} {NUMBER:k} or a quantity of a user family {DYNAMIC_TYPE:n[:family]} (the rule registered before the family exists or after its items), behaviour computed from the NAMED fields: decline always / decline when n is odd / Number(c+2n+3k) / Money / Percent / Duration), delete_rule (existing, never registered - also the function names of built-in rules such as convert_money -, already deleted, unknown language; names from a pool of four so that duplicates occur), add_dynamic_type, add_dynamic_type_item (fresh / duplicate index / unknown family, integer link factors, a quarter of the upgrade codes with a constant offset (`{value} / 4 + 32`), a third of the downgrade codes mentioning the placeholder twice (`({value} + {value}) * 6 / 2`), amounts incl. 0; families whose lowest index is 0, 1 or 3; units with one name or two names in either order, lines written with either), set_date_rule with the patterns a language already has (changes nothing), probe evaluations of registered and deleted patterns, family conversions; oracle: return values against a model (add_rule false iff unknown language, delete_rule true iff a live rule of that name exists, removing the first; add_dynamic_type false iff the name exists; add_dynamic_type_item false iff the family is unknown or the index taken); effect: a line matched by exactly one live rule evaluates to what its behaviour computes, a declining rule or no rule leaves the line as on a plain calculator; conversions = product of the declared link factors; and after every deletion and at the end: the built-in sentences (arithmetic, money, percent, units, dates, durations incl. several parts and 'as', zones, bases) evaluate as on a plain calculator unless an operator-word rule is live, and every live pattern is probed for its effect once more at the end of the history; a panel of probe lines (every registered and deleted pattern, thirteen built-in sentences, every pair of family items, cross-family lines) evaluates identically on the long-lived calculator and on a fresh one on which only the surviving registrations were replayed, once in their order and once families first; non-trivial = a deletion followed by a probe of the deleted rule's pattern, two rules of equal name, or a rejected duplicate followed by a conversion");
    ctx.assume("patterns consist of a fresh keyword plus typed fields (>= 2 tokens, the result cannot match again); unit items have fresh names, contiguous indices are needed for a conversion to be asserted");
    ctx.run_table(&Registry, "regressions", regressions(), false);
    let max = match ctx.tier {
        crate::engine::Tier::Quick => 12,
        crate::engine::Tier::Thorough => 15,
    };
    ctx.run_generated(&Registry, ctx.tier.pick(1_000, 20_000), || history_strategy(max));
    ctx.run_table(&NameCollision, "name-collisions", collision_table(), true);
    ctx.run_table(&DeclinedThenAccepted, "two-patterns", two_patterns_table(), true);
    ctx.run_table(&ConvertedRuleResult, "rule-result-converted", third_table(), true);
    ctx.run_table(&LiteralInPattern, "literal-in-pattern", literal_table(), true);
}

pub fn replay(w: &mut Worker, sub: &str, case: &serde_json::Value) -> Option<Verdict> {
    match sub {
        "registry-history" => crate::engine::replay_case(&Registry, w, case),
        "family-reusing-a-built-in-unit-name" => crate::engine::replay_case(&NameCollision, w, case),
        "declined-pattern-then-accepted-pattern" => crate::engine::replay_case(&DeclinedThenAccepted, w, case),
        "rule-result-converted-to-a-base" => crate::engine::replay_case(&ConvertedRuleResult, w, case),
        "number-literal-inside-a-pattern" => crate::engine::replay_case(&LiteralInPattern, w, case),
        _ => None,
    }
}
