//! C11 — clock times and zones: conversion keeps the instant, arithmetic is modulo 24 h.

use crate::common::{build_calc, Cfg, Slot, V};
use crate::engine::{monotone_index, Acc, Ctx, Prop, Verdict, Worker};
use crate::lines::{recase, Class, Line, NumLit, Tok};
use crate::vocab::vocab;
use proptest::prelude::*;
use serde::{Deserialize, Serialize};

/// A zone as written: table abbreviation or a GMT form.
#[derive(Clone, Debug, PartialEq, Serialize, Deserialize)]
pub enum Zone {
    /// table key (upper case)
    Abbr(String),
    /// (negative?, hours 0..19, minutes, form: 0 `GMT+h`, 1 `GMT+h:mm`, 2 `GMT+hhmm`)
    Gmt(bool, u8, u8, u8),
}

impl Zone {
    pub fn text(&self) -> String {
        match self {
            Zone::Abbr(a) => a.clone(),
            Zone::Gmt(neg, h, m, form) => {
                let s = if *neg { '-' } else { '+' };
                match form % 3 {
                    0 => format!("GMT{}{}", s, h),
                    1 => format!("GMT{}{}:{:02}", s, h, m),
                    _ => format!("GMT{}{:02}{:02}", s, h, m),
                }
            }
        }
    }
    /// offset in minutes: the table for abbreviations, +-(60h+mm) for GMT forms
    pub fn offset(&self) -> i32 {
        match self {
            Zone::Abbr(a) => *vocab().zones.get(a).unwrap_or(&0),
            Zone::Gmt(neg, h, m, form) => {
                let mm = if form % 3 == 0 { 0 } else { *m as i32 };
                let v = *h as i32 * 60 + mm;
                if *neg {
                    -v
                } else {
                    v
                }
            }
        }
    }
    pub fn tok(&self, case: u8, bits: u32) -> Tok {
        // GMT forms are written in upper case (set_timezone is case-sensitive; in a line the lexer upper-cases)
        let t = match self {
            Zone::Abbr(_) => recase(&self.text(), case, bits),
            Zone::Gmt(..) => self.text(),
        };
        Tok::word(&t, Class::Zone)
    }
}

/// zone abbreviations the zone syntax can express and that mean nothing else to the lexer
pub fn usable_zones() -> Vec<String> {
    let v = vocab();
    let mut other: std::collections::BTreeSet<String> = std::collections::BTreeSet::new();
    for k in v.all_currency_keys.iter().chain(v.currency_alias.keys()) {
        other.insert(k.to_lowercase());
    }
    for u in &v.units {
        for n in u.names.iter().chain(u.parse_names.iter()) {
            other.insert(n.to_lowercase());
        }
    }
    for l in v.langs.values() {
        for k in l.long_months.keys().chain(l.short_months.keys()).chain(l.constants.keys()).chain(l.alias.keys()) {
            other.insert(k.to_lowercase());
        }
        for g in l.word_group.values() {
            for w in g {
                other.insert(w.to_lowercase());
            }
        }
    }
    for w in ["am", "pm", "at", "of", "on", "is", "to", "in", "as"] {
        other.insert(w.to_string());
    }
    v.zones.keys().filter(|z| z.len() >= 2 && z.len() <= 4 && z.chars().all(|c| c.is_ascii_uppercase()) && !other.contains(&z.to_lowercase())).cloned().collect()
}

#[derive(Clone, Debug, PartialEq, Serialize, Deserialize)]
pub struct TimeLit {
    /// 0..23
    pub h: u8,
    pub m: u8,
    pub s: Option<u8>,
    /// form: 0 `H:MM[:SS]`, 1 `HH:MM[:SS]`, 2 `h[:MM] am|pm` (needs h in 1..=11 after folding), 3 same without blank
    pub form: u8,
    /// meridiem letter case bits
    pub mcase: u8,
}

impl TimeLit {
    pub fn wall(&self) -> i64 {
        self.h as i64 * 3600 + self.m as i64 * 60 + self.s.unwrap_or(0) as i64
    }
    pub fn normalise(mut self) -> TimeLit {
        let h12 = self.h % 12;
        if self.form >= 2 {
            // am/pm form: hours 1..11 only (12:xx am/pm is pinned to 12:xx by the suite and left out); no seconds
            if h12 == 0 {
                self.form %= 2;
            } else {
                self.s = None;
            }
        }
        self
    }
    pub fn tok(&self) -> Tok {
        let text = match self.form % 4 {
            0 => match self.s {
                Some(s) => format!("{}:{:02}:{:02}", self.h, self.m, s),
                None => format!("{}:{:02}", self.h, self.m),
            },
            1 => match self.s {
                Some(s) => format!("{:02}:{:02}:{:02}", self.h, self.m, s),
                None => format!("{:02}:{:02}", self.h, self.m),
            },
            f => {
                let pm = self.h >= 12;
                let h12 = self.h % 12;
                let mer = match (pm, self.mcase % 4) {
                    (false, 0) => "am",
                    (false, 1) => "AM",
                    (false, 2) => "Am",
                    (false, _) => "aM",
                    (true, 0) => "pm",
                    (true, 1) => "PM",
                    (true, 2) => "Pm",
                    (true, _) => "pM",
                };
                let blank = if f == 2 { " " } else { "" };
                if self.m == 0 && self.mcase >= 4 {
                    format!("{}{}{}", h12, blank, mer)
                } else {
                    format!("{}:{:02}{}{}", h12, self.m, blank, mer)
                }
            }
        };
        Tok { pre: text, num: None, post: String::new(), class: Class::Time, space: 1 }
    }
}

#[derive(Clone, Debug, Serialize, Deserialize)]
pub struct DurSpec {
    /// (count, unit 0 sec..3 day) parts written side by side
    pub parts: Vec<(u32, u8)>,
    /// write the first count with an attached '-'
    pub negative: bool,
}

impl DurSpec {
    pub fn seconds(&self) -> i64 {
        let mut total = 0i64;
        for (i, (n, u)) in self.parts.iter().enumerate() {
            let s = *n as i64 * crate::c10::UNIT_LEN[*u as usize];
            // a negative first count makes that part negative; parts add up
            if i == 0 && self.negative {
                total -= s;
            } else {
                total += s;
            }
        }
        total
    }
    pub fn toks(&self) -> Vec<Tok> {
        let mut v = vec![];
        for (i, (n, u)) in self.parts.iter().enumerate() {
            v.push(Tok::num(NumLit { v: *n as f64, sign: if i == 0 && self.negative { 1 } else { 0 }, group: false }));
            let sp = crate::c10::spellings("en", *u);
            v.push(Tok::word(sp[if *n == 1 { 0 } else { 1 }], Class::DurWord));
        }
        v
    }
}

#[derive(Clone, Debug, Serialize, Deserialize)]
pub enum Shape {
    Literal(TimeLit, Option<Zone>),
    /// T [Z1] conn Z2
    Convert(TimeLit, Option<Zone>, u8, Zone),
    /// T Z1 to Z2 to Z1
    RoundTrip(TimeLit, Zone, Zone),
    /// T [Z] +- duration
    Arith(TimeLit, Option<Zone>, bool, DurSpec),
    /// T1 to T2 (both in the default zone)
    Diff(TimeLit, TimeLit),
    /// T1 Z to T2 Z (same explicit zone)
    DiffZoned(TimeLit, TimeLit, Zone),
}

#[derive(Clone, Debug, Serialize, Deserialize)]
pub struct Case {
    pub shape: Shape,
    /// default zone through set_timezone
    pub default_tz: Option<Zone>,
    pub zcase: u8,
    pub zbits: u32,
}

pub const CONN: [&str; 4] = ["to", "as", "in", "into"];

pub fn case_line(c: &Case) -> Line {
    let mut l = Line::default();
    let z = |zn: &Zone| zn.tok(c.zcase, c.zbits);
    match &c.shape {
        Shape::Literal(t, zone) => {
            l.push(t.tok());
            if let Some(zn) = zone {
                l.push(z(zn));
            }
        }
        Shape::Convert(t, z1, conn, z2) => {
            l.push(t.tok());
            if let Some(zn) = z1 {
                l.push(z(zn));
            }
            l.push(Tok::word(CONN[*conn as usize % 4], Class::Conn));
            l.push(z(z2));
        }
        Shape::RoundTrip(t, z1, z2) => {
            l.push(t.tok());
            l.push(z(z1));
            l.push(Tok::word("to", Class::Conn));
            l.push(z(z2));
            l.push(Tok::word("to", Class::Conn));
            l.push(z(z1));
        }
        Shape::Arith(t, zone, plus, d) => {
            l.push(t.tok());
            if let Some(zn) = zone {
                l.push(z(zn));
            }
            l.push(Tok::op(if *plus { '+' } else { '-' }));
            for tk in d.toks() {
                l.push(tk);
            }
        }
        Shape::Diff(a, b) => {
            l.push(a.tok());
            l.push(Tok::word("to", Class::Conn));
            l.push(b.tok());
        }
        Shape::DiffZoned(a, b, zn) => {
            l.push(a.tok());
            l.push(z(zn));
            l.push(Tok::word("to", Class::Conn));
            l.push(b.tok());
            l.push(z(zn));
        }
    }
    l
}

pub fn tz_cfg(c: &Case) -> Cfg {
    match &c.default_tz {
        Some(z) => Cfg::default().with_tz(&z.text()),
        None => Cfg::default(),
    }
}

pub enum Expect {
    /// displayed seconds of day, zone name, zone offset
    Time(i64, String, i32),
    Duration(i64),
}

pub fn expected(c: &Case) -> Expect {
    let dz = c.default_tz.clone().unwrap_or(Zone::Abbr("UTC".into()));
    let md = |x: i64| x.rem_euclid(86400);
    match &c.shape {
        Shape::Literal(t, z) => {
            let zz = z.clone().unwrap_or(dz);
            Expect::Time(t.wall(), zz.text().to_uppercase(), zz.offset())
        }
        Shape::Convert(t, z1, _, z2) => {
            let zz = z1.clone().unwrap_or(dz);
            Expect::Time(md(t.wall() - zz.offset() as i64 * 60 + z2.offset() as i64 * 60), z2.text().to_uppercase(), z2.offset())
        }
        Shape::RoundTrip(t, z1, _) => Expect::Time(t.wall(), z1.text().to_uppercase(), z1.offset()),
        Shape::Arith(t, z, plus, d) => {
            let zz = z.clone().unwrap_or(dz);
            let delta = if *plus { d.seconds() } else { -d.seconds() };
            Expect::Time(md(t.wall() + delta), zz.text().to_uppercase(), zz.offset())
        }
        Shape::Diff(a, b) | Shape::DiffZoned(a, b, _) => Expect::Duration((a.wall() - b.wall()).abs()),
    }
}

pub fn displayed(ts: i64, off: i32) -> i64 {
    (ts + off as i64 * 60).rem_euclid(86400)
}

pub fn hms(s: i64) -> String {
    format!("{:02}:{:02}:{:02}", s / 3600, (s / 60) % 60, s % 60)
}

pub struct Times;

fn classify_known(c: &Case, slot: &Slot) -> Option<&'static str> {
    // F151: `T1 Z to T2 Z` - the difference rule fires before the second zone is attached
    if let (Shape::DiffZoned(..), Slot::Err(e)) = (&c.shape, slot) {
        if e == "No more token" {
            return Some("F151");
        }
    }
    None
}

impl Prop for Times {
    type Case = Case;
    fn name(&self) -> &'static str {
        "times"
    }
    fn check(&self, w: &mut Worker, c: &Case) -> Verdict {
        let cfg = tz_cfg(c);
        let line = case_line(c).render(",", ".");
        let rendered = format!("[default zone {}] {}", c.default_tz.as_ref().map(|z| z.text()).unwrap_or_else(|| "UTC".into()), line);
        let slot = match w.eval1(&cfg, "en", &line) {
            Ok(s) => s,
            Err(e) => return Verdict::fail(e, rendered),
        };
        let mut acc = Acc::new();
        let exp = expected(c);
        match (&exp, &slot) {
            (Expect::Time(secs, name, off), Slot::Ok { v: V::Time(ts, nanos, zn, zo), out }) => {
                let shown = displayed(*ts, *zo);
                if shown != *secs || *nanos != 0 {
                    acc.fail(format!("expected {} {} got {} {} (instant {}, offset {} min)", hms(*secs), name, hms(shown), zn, ts, zo));
                } else if zn != name || zo != off {
                    acc.fail(format!("expected zone {} ({} min) got {} ({} min)", name, off, zn, zo));
                } else if *out != format!("{} {}", hms(*secs), name) {
                    acc.fail(format!("printed {:?}, expected {:?}", out, format!("{} {}", hms(*secs), name)));
                }
            }
            (Expect::Time(secs, name, _), other) => acc.fail_kf(format!("expected Time({} {}) got {}", hms(*secs), name, other.brief()), classify_known(c, &slot)),
            (Expect::Duration(d), Slot::Ok { v: V::Dur(s, 0), .. }) => {
                if s != d {
                    acc.fail(format!("expected {} s got {} s", d, s));
                }
            }
            (Expect::Duration(d), other) => acc.fail_kf(format!("expected Duration({} s) got {}", d, other.brief()), classify_known(c, &slot)),
        }
        // metamorphic: with an explicit source zone the answer does not depend on the default zone
        let explicit = match &c.shape {
            Shape::Literal(_, Some(_)) | Shape::Convert(_, Some(_), _, _) | Shape::RoundTrip(..) | Shape::Arith(_, Some(_), _, _) => true,
            _ => false,
        };
        if acc.ok() && explicit && c.default_tz.is_some() {
            match w.eval1(&Cfg::default(), "en", &line) {
                Ok(s2) => {
                    let same = match (&slot, &s2) {
                        (Slot::Ok { v: V::Time(t1, _, n1, o1), out: out1 }, Slot::Ok { v: V::Time(t2, _, n2, o2), out: out2 }) => displayed(*t1, *o1) == displayed(*t2, *o2) && n1 == n2 && o1 == o2 && out1 == out2,
                        (a, b) => a.same(b),
                    };
                    if !same {
                        acc.fail(format!("the result depends on the default zone although the source zone is explicit: {} vs {} under UTC", slot.brief(), s2.brief()));
                    }
                }
                Err(e) => acc.fail(e),
            }
        }
        // metamorphic: the time (with its zone) held in a name bound on an earlier line is that time
        let mut via_checked = false;
        if acc.ok() && c.zbits % 4 == 1 && matches!(slot, Slot::Ok { .. }) && !matches!(c.shape, Shape::Literal(..)) {
            let whole = case_line(c);
            let n_first = match &c.shape {
                Shape::Convert(_, Some(_), _, _) | Shape::RoundTrip(..) | Shape::Arith(_, Some(_), _, _) | Shape::DiffZoned(..) => 2,
                _ => 1,
            };
            let text2 = whole.via_variable(0, n_first, if c.zbits % 8 == 1 { "start" } else { "shift start" }, ",", ".");
            match w.eval(&cfg, "en", &text2) {
                Ok(o) if o.slots.len() == 2 => {
                    via_checked = true;
                    let s2 = &o.slots[1];
                    let same = match (&slot, s2) {
                        (Slot::Ok { v: V::Time(t1, _, n1, o1), out: out1 }, Slot::Ok { v: V::Time(t2, _, n2, o2), out: out2 }) => displayed(*t1, *o1) == displayed(*t2, *o2) && n1 == n2 && o1 == o2 && out1 == out2,
                        (a, b) => a.same(b),
                    };
                    if !same {
                        acc.fail(format!("{:?} gives {} but with the time held in a name ({:?}) it gives {}", line, slot.brief(), text2, s2.brief()));
                    }
                }
                Ok(o) => acc.fail(format!("{} slots for the two lines {:?}", o.slots.len(), text2)),
                Err(p) => acc.fail(format!("{:?}: panic at {}: {}", text2, p.site, p.message)),
            }
        }
        let (o1, o2): (i32, i32) = match &c.shape {
            Shape::Convert(_, z1, _, z2) => (z1.clone().or(c.default_tz.clone()).map(|z| z.offset()).unwrap_or(0), z2.offset()),
            _ => (0, 0),
        };
        let crosses_midnight = match (&c.shape, &exp) {
            (Shape::Convert(t, ..), Expect::Time(s, ..)) | (Shape::Arith(t, ..), Expect::Time(s, ..)) => {
                let raw = match &c.shape {
                    Shape::Convert(..) => t.wall() - o1 as i64 * 60 + o2 as i64 * 60,
                    Shape::Arith(_, _, plus, d) => t.wall() + if *plus { d.seconds() } else { -d.seconds() },
                    _ => *s,
                };
                !(0..86400).contains(&raw)
            }
            _ => false,
        };
        let kind: &'static str = match &c.shape {
            Shape::Literal(..) => "literal",
            Shape::Convert(..) => "conversion",
            Shape::RoundTrip(..) => "round-trip",
            Shape::Arith(..) => "arithmetic",
            Shape::Diff(..) => "difference",
            Shape::DiffZoned(..) => "difference-zoned",
        };
        let nt = match &c.shape {
            Shape::Convert(..) => o1 != o2,
            Shape::RoundTrip(_, a, b) => a.offset() != b.offset(),
            Shape::Arith(_, _, _, d) => d.seconds() % 86400 != 0,
            Shape::Diff(a, b) => a.wall() != b.wall(),
            Shape::Literal(t, z) => z.is_some() || t.form >= 2 || c.default_tz.is_some(),
            Shape::DiffZoned(..) => true,
        };
        let tl = match &c.shape {
            Shape::Literal(t, _) | Shape::Convert(t, ..) | Shape::RoundTrip(t, ..) | Shape::Arith(t, ..) | Shape::Diff(t, _) | Shape::DiffZoned(t, ..) => t,
        };
        acc.finish(rendered)
            .nt(nt)
            .class(kind)
            .class_if(crosses_midnight, "crosses-midnight")
            .class_if(o1 % 60 != 0 || o2 % 60 != 0, "half-or-quarter-hour-zone")
            .class_if(o2 > 0, "target-east-of-greenwich")
            .class_if(c.default_tz.as_ref().map_or(false, |z| z.offset() != 0), "default-zone-not-utc")
            .class_if(tl.form >= 2, "am-pm-form")
            .class_if(via_checked, "time-also-via-a-variable")
            .class_if(matches!(&c.shape, Shape::Convert(_, _, _, Zone::Gmt(..)) | Shape::Convert(_, Some(Zone::Gmt(..)), _, _)), "gmt-offset-form")
            .class_if(matches!(&c.shape, Shape::Arith(_, _, _, d) if d.negative), "negative-duration-literal")
    }
}

// ---- set_timezone ------------------------------------------------------------------------------

#[derive(Clone, Debug, Serialize, Deserialize)]
pub struct SetTz {
    /// strings handed to set_timezone in order
    pub calls: Vec<String>,
}

pub struct SetTimezone;

/// what set_timezone accepts according to its documentation in the statement: a table abbreviation of
/// 2-4 capital letters or a GMT+-h[:mm] / GMT+-hhmm form, written exactly so
pub fn parse_zone_strict(s: &str) -> Option<(String, i32)> {
    let v = vocab();
    if s.len() >= 2 && s.len() <= 4 && s.chars().all(|c| c.is_ascii_uppercase()) {
        return v.zones.get(s).map(|o| (s.to_string(), *o));
    }
    let rest = s.strip_prefix("GMT")?;
    let (neg, rest) = if let Some(r) = rest.strip_prefix('-') {
        (true, r)
    } else if let Some(r) = rest.strip_prefix('+') {
        (false, r)
    } else {
        return None;
    };
    let (h, m): (i32, i32) = if let Some((h, m)) = rest.split_once(':') {
        if h.is_empty() || h.len() > 2 || m.len() != 2 {
            return None;
        }
        (h.parse().ok()?, m.parse().ok()?)
    } else if rest.len() == 4 {
        (rest[..2].parse().ok()?, rest[2..].parse().ok()?)
    } else if !rest.is_empty() && rest.len() <= 2 {
        (rest.parse().ok()?, 0)
    } else {
        return None;
    };
    if !(0..=19).contains(&h) || !(0..=59).contains(&m) {
        return None;
    }
    let off = h * 60 + m;
    Some((s.to_string(), if neg { -off } else { off }))
}

impl Prop for SetTimezone {
    type Case = SetTz;
    fn name(&self) -> &'static str {
        "set-timezone"
    }
    fn check(&self, w: &mut Worker, c: &SetTz) -> Verdict {
        let mut calc = build_calc(&Cfg::default());
        let mut model = ("UTC".to_string(), 0i32);
        let mut acc = Acc::new();
        let rendered = format!("set_timezone sequence {:?}", c.calls);
        let mut accepted = 0;
        let mut rejected_after_accept = false;
        for s in &c.calls {
            w.count_eval(1);
            let r = match crate::engine::guarded(|| calc.set_timezone(s.clone())) {
                Ok(r) => r,
                Err(p) => {
                    acc.fail(format!("set_timezone({:?}) panicked at {}: {}", s, p.site, p.message));
                    break;
                }
            };
            let strict = parse_zone_strict(s);
            match (&r, &strict) {
                (Ok(()), Some((name, off))) => {
                    model = (name.to_uppercase(), *off);
                    accepted += 1;
                }
                (Err(_), None) => {
                    if accepted > 0 {
                        rejected_after_accept = true;
                    }
                }
                // strings outside the documented forms: the statement only requires that an Err leaves the
                // zone unchanged; whatever an Ok sets is read back below
                (Ok(()), None) => {
                    let t = calc.get_time_offset();
                    model = (t.name.clone(), t.offset);
                }
                (Err(e), Some(_)) => {
                    acc.fail(format!("set_timezone({:?}) was rejected ({}) although it is a table abbreviation / GMT form", s, e));
                    break;
                }
            }
            let t = calc.get_time_offset();
            if (t.name.clone(), t.offset) != model {
                acc.fail(format!("after set_timezone({:?}) -> {:?} the zone is {} ({} min), expected {} ({} min)", s, r, t.name, t.offset, model.0, model.1));
                break;
            }
            // and a time literal is read in that zone
            let out = crate::common::eval_on(&calc, "en", "10:30");
            match out {
                Ok(o) => match o.slots.first() {
                    Some(Slot::Ok { v: V::Time(ts, _, n, off), .. }) => {
                        if displayed(*ts, *off) != 10 * 3600 + 30 * 60 || *n != model.0 || *off != model.1 {
                            acc.fail(format!("'10:30' under default zone {} reads as {} {}", model.0, hms(displayed(*ts, *off)), n));
                            break;
                        }
                    }
                    other => {
                        acc.fail(format!("'10:30' gives {:?}", other));
                        break;
                    }
                },
                Err(p) => {
                    acc.fail(format!("panic at {}: {}", p.site, p.message));
                    break;
                }
            }
        }
        acc.finish(rendered).nt(accepted >= 1 && c.calls.len() >= 2).class_if(rejected_after_accept, "rejected-call-after-accepted-one").class_if(accepted >= 2, "two-or-more-accepted")
    }
}

// ---- strategies --------------------------------------------------------------------------------

pub fn zone_strategy() -> impl Strategy<Value = Zone> {
    let zones = usable_zones();
    prop_oneof![
        6 => prop::sample::select(zones).prop_map(Zone::Abbr),
        1 => Just(Zone::Abbr("GMT".into())),
        1 => Just(Zone::Abbr("UTC".into())),
        3 => (any::<bool>(), 0u8..=19, 0u8..=59, 0u8..3).prop_map(|(n, h, m, f)| Zone::Gmt(n, h, m, f)),
    ]
}

pub fn time_strategy() -> impl Strategy<Value = TimeLit> {
    (0u8..24, prop_oneof![3 => 0u8..60, 1 => Just(0u8), 1 => Just(59u8)], prop::option::weighted(0.4, 0u8..60), 0u8..4, 0u8..8).prop_map(|(h, m, s, form, mcase)| TimeLit { h, m, s, form, mcase }.normalise())
}

pub fn dur_strategy() -> impl Strategy<Value = DurSpec> {
    let part = prop_oneof![
        3 => (0u32..=200, 0u8..=2),
        2 => (0u32..=100_000, 0u8..=1),
        1 => (0u32..=10, Just(3u8)),
        1 => (prop::sample::select(vec![24u32, 25, 48, 1440, 1439, 86400, 86399, 3600]), 0u8..=2),
        // long durations (decades to millennia, beyond 2^31 and 2^32 seconds): the clock still moves modulo 24 h
        1 => prop_oneof![(0u32..=5000, Just(6u8)), (0u32..=300_000, Just(4u8)), (0u32..=2_000_000, Just(3u8)), (0u32..=50_000_000, Just(2u8)), (2_000_000_000u32..=4_294_967_295, Just(0u8)), (30_000_000u32..=80_000_000, Just(1u8))],
    ];
    (prop::collection::vec(part, 1..=3), prop::bool::weighted(0.2)).prop_map(|(mut parts, negative)| {
        // descending units read naturally
        parts.sort_by(|a, b| b.1.cmp(&a.1));
        let negative = negative && parts[0].0 > 0;
        DurSpec { parts, negative }
    })
}

pub fn shape_strategy() -> impl Strategy<Value = Shape> {
    prop_oneof![
        2 => (time_strategy(), prop::option::of(zone_strategy())).prop_map(|(t, z)| Shape::Literal(t, z)),
        6 => (time_strategy(), prop::option::weighted(0.8, zone_strategy()), 0u8..4, zone_strategy()).prop_map(|(t, z1, c, z2)| Shape::Convert(t, z1, c, z2)),
        2 => (time_strategy(), zone_strategy(), zone_strategy()).prop_map(|(t, a, b)| Shape::RoundTrip(t, a, b)),
        4 => (time_strategy(), prop::option::weighted(0.4, zone_strategy()), any::<bool>(), dur_strategy()).prop_map(|(t, z, p, d)| Shape::Arith(t, z, p, d)),
        2 => (time_strategy(), time_strategy()).prop_map(|(a, b)| Shape::Diff(a, b)),
        1 => (time_strategy(), time_strategy(), zone_strategy()).prop_map(|(a, b, z)| Shape::DiffZoned(a, b, z)),
    ]
}

pub fn case_strategy() -> impl Strategy<Value = Case> {
    // a small pool of default zones keeps the calculators cached
    let defaults = prop_oneof![
        5 => Just(None),
        4 => prop::sample::select(vec![Zone::Abbr("EST".into()), Zone::Abbr("CET".into()), Zone::Abbr("NPT".into()), Zone::Abbr("IST".into()), Zone::Gmt(false, 5, 30, 1), Zone::Gmt(true, 11, 0, 0), Zone::Gmt(false, 19, 59, 2), Zone::Abbr("HNT".into()), Zone::Abbr("LINT".into())]).prop_map(Some),
    ];
    (shape_strategy(), defaults, 0u8..5, any::<u32>()).prop_map(|(shape, default_tz, zcase, zbits)| Case { shape, default_tz, zcase, zbits })
}

/// all ordered pairs of usable zones (+ GMT/UTC) at the given wall times
pub fn pair_table(times: &[(u8, u8)]) -> Vec<Case> {
    let mut zones: Vec<Zone> = usable_zones().into_iter().map(Zone::Abbr).collect();
    zones.push(Zone::Abbr("GMT".into()));
    zones.push(Zone::Abbr("UTC".into()));
    let mut out = vec![];
    let mut k = 0u8;
    for a in &zones {
        for b in &zones {
            for (h, m) in times {
                k = k.wrapping_add(1);
                out.push(Case { shape: Shape::Convert(TimeLit { h: *h, m: *m, s: None, form: 0, mcase: 0 }, Some(a.clone()), k % 4, b.clone()), default_tz: None, zcase: 0, zbits: 0 });
            }
        }
    }
    out
}

pub fn settz_strategy() -> impl Strategy<Value = SetTz> {
    let zones = usable_zones();
    let n = zones.len();
    let one = prop_oneof![
        4 => (0..n).prop_map(move |i| zones[i].clone()),
        3 => (any::<bool>(), 0u8..=19, 0u8..=59, 0u8..3).prop_map(|(n, h, m, f)| Zone::Gmt(n, h, m, f).text()),
        3 => prop::sample::select(vec!["cet", "est", "Est", "XXX", "", "GMT+", "+3", "Europe/Paris", "İ", "gmt+3", "U", "ABCDE", "CHADT", "ChST", "GMT", "UTC", " EST", "EST ", "12"]).prop_map(|s| s.to_string()),
    ];
    prop::collection::vec(one, 1..6).prop_map(|calls| SetTz { calls })
}

// ---- differences between times of different zones, or of a time that was moved by a duration ------------------

/// `T1 [Z] to T2` / `T1 to T2 [Z]` with at most one explicit zone (the other side is in the default zone): each side
/// denotes an instant of today, the result is the absolute difference of the two instants. The first operand may be
/// held in a name, also as `name = T1 +- duration` (the clock moved modulo 24 h). Asserted when both UTC clocks stay
/// on the day they were written for (what happens across midnight is not part of the statement).
#[derive(Clone, Debug, Serialize, Deserialize)]
pub struct TimeDiff {
    pub a: TimeLit,
    pub b: TimeLit,
    /// the explicit zone and the side that carries it (0 none, 1 first, 2 second)
    pub zone: Zone,
    pub side: u8,
    pub default_tz: Option<Zone>,
    /// the first operand is moved by a duration first (needs the name)
    pub moved: Option<(bool, DurSpec)>,
    pub via: bool,
}

pub struct TimeDiffs;

impl Prop for TimeDiffs {
    type Case = TimeDiff;
    fn name(&self) -> &'static str {
        "time-differences"
    }
    fn check(&self, w: &mut Worker, c: &TimeDiff) -> Verdict {
        let cfg = match &c.default_tz {
            Some(z) => Cfg::default().with_tz(&z.text()),
            None => Cfg::default(),
        };
        let dz = c.default_tz.clone().unwrap_or(Zone::Abbr("UTC".into()));
        let (za, zb) = (if c.side % 3 == 1 { c.zone.clone() } else { dz.clone() }, if c.side % 3 == 2 { c.zone.clone() } else { dz.clone() });
        let mut first = Line::default();
        first.push(c.a.tok());
        if c.side % 3 == 1 {
            first.push(c.zone.tok(0, 0));
        }
        let n_first = first.toks.len();
        let mut whole = first.clone();
        whole.push(Tok::word("to", Class::Conn));
        whole.push(c.b.tok());
        if c.side % 3 == 2 {
            whole.push(c.zone.tok(0, 0));
        }
        let via = c.via || c.moved.is_some();
        let text = if via {
            let mut def = first.clone();
            if let Some((plus, d)) = &c.moved {
                def.push(Tok::op(if *plus { '+' } else { '-' }));
                for t in d.toks() {
                    def.push(t);
                }
            }
            let mut tmp = Line::default();
            for t in def.toks.iter().chain(whole.toks[n_first..].iter()) {
                tmp.push(t.clone());
            }
            tmp.via_variable(0, def.toks.len(), "shift start", ",", ".")
        } else {
            whole.render(",", ".")
        };
        let rendered = format!("[default zone {}] {}", dz.text(), text.replace('\n', " ; "));
        // the wall clock of the first operand after the move, when the move stays on the same day
        let wall_a = match &c.moved {
            None => c.a.wall(),
            Some((plus, d)) => {
                let m = d.seconds().rem_euclid(86400);
                let m = if d.seconds() < 0 { -((-d.seconds()).rem_euclid(86400)) } else { m };
                let moved = if *plus { c.a.wall() + m } else { c.a.wall() - m };
                if !(0..86400).contains(&moved) {
                    return Verdict::skip("the move crosses midnight", rendered);
                }
                moved
            }
        };
        let (ua, ub) = (wall_a - za.offset() as i64 * 60, c.b.wall() - zb.offset() as i64 * 60);
        if !(0..86400).contains(&ua) || !(0..86400).contains(&ub) {
            return Verdict::skip("a UTC clock on another day", rendered);
        }
        let out = match w.eval(&cfg, "en", &text) {
            Ok(o) => o,
            Err(p) => return Verdict::fail(format!("panic at {}: {}", p.site, p.message), rendered),
        };
        let exp = (ua - ub).abs();
        let mut acc = Acc::new();
        match out.slots.last() {
            Some(Slot::Ok { v: V::Dur(s, 0), .. }) if *s == exp => {}
            other => acc.fail(format!("expected Duration({} s) = |{} - {}| (UTC clocks) got {:?}", exp, hms(ua), hms(ub), other.map(|s| s.brief()))),
        }
        acc.finish(rendered).nt(za.offset() != zb.offset() || c.moved.is_some()).class_if(za.offset() != zb.offset(), "operands-in-zones-of-different-offsets").class_if(c.moved.is_some(), "first-operand-moved-by-a-duration").class_if(via, "first-operand-held-in-a-name").class_if(c.default_tz.is_some(), "default-zone-set")
    }
}

pub fn timediff_strategy() -> impl Strategy<Value = TimeDiff> {
    let defaults = prop_oneof![5 => Just(None), 3 => prop::sample::select(vec![Zone::Abbr("EST".into()), Zone::Abbr("CET".into()), Zone::Abbr("IST".into()), Zone::Gmt(false, 5, 30, 1)]).prop_map(Some)];
    let t = || time_strategy().prop_map(|t| TimeLit { form: t.form % 2, ..t });
    (t(), t(), zone_strategy(), 0u8..3, defaults, prop::option::weighted(0.35, (any::<bool>(), dur_strategy())), any::<bool>()).prop_map(|(a, b, zone, side, default_tz, moved, via)| {
        let moved = moved.map(|(p, d)| (p, DurSpec { negative: false, ..d }));
        TimeDiff { a, b, zone, side, default_tz, moved, via }
    })
}

pub fn run(ctx: &Ctx) {
    let _ = monotone_index(0, 1);
    ctx.rule("generated: times H:MM[:SS] (0-23, with/without leading zero) and h[:MM] am|pm (1-11, any letter case, with/without the blank), optional zone = every table abbreviation of 2-4 capitals that means nothing else to the lexer, GMT, UTC, GMT+-h, GMT+-h:mm, GMT+-hhmm (h 0-19); T [Z1] to|as|in|into Z2, Z1->Z2->Z1 chains, T [Z] +- durations (1-3 parts, seconds..days plus long ones in weeks, years, tens of millions of hours and up to 2^32 seconds, negative-literal counts), T1 to T2, also with one side in an explicit zone of another offset and with the first operand held in a name or moved by a duration first ('x = T + D' / 'x to T2'); default zone from a pool set through set_timezone; set_timezone call sequences incl. rejected strings; ALL ordered zone pairs enumerated at fixed wall times; metamorphic step (a quarter of the cases): the time (with its zone) also held in a name bound on an earlier line; oracle: offsets from the zone table of config.json, shown = wall - off(Z1) + off(Z2) mod 24 h read from the AST (instant + offset) and from the printed 'HH:MM:SS NAME', arithmetic mod 24 h, |T2-T1| for differences, independence from the default zone when Z1 is explicit; non-trivial = off(Z1) != off(Z2) / duration not a multiple of 24 h / distinct times");
    ctx.assume("12:xx am/pm is left out (pinned by the suite); T1 Z1 to T2 Z2 with two explicit zones is not generated (it reads as a conversion); with ONE explicit zone the two sides are instants of today and their difference is asserted when both UTC clocks stay on that day");
    let times: &[(u8, u8)] = match ctx.tier {
        crate::engine::Tier::Quick => &[(10, 30), (23, 45)],
        crate::engine::Tier::Thorough => &[(0, 0), (1, 15), (5, 59), (10, 30), (12, 0), (13, 1), (18, 44), (20, 20), (23, 45), (23, 59)],
    };
    ctx.run_table(&Times, "all-zone-pairs", pair_table(times), true);
    ctx.run_generated(&Times, ctx.tier.pick(100_000, 1_000_000), case_strategy);
    ctx.run_generated(&SetTimezone, ctx.tier.pick(1_000, 10_000), settz_strategy);
    ctx.run_generated(&TimeDiffs, ctx.tier.pick(30_000, 300_000), timediff_strategy);
}

pub fn replay(w: &mut Worker, sub: &str, case: &serde_json::Value) -> Option<Verdict> {
    match sub {
        "times" => crate::engine::replay_case(&Times, w, case),
        "set-timezone" => crate::engine::replay_case(&SetTimezone, w, case),
        "time-differences" => crate::engine::replay_case(&TimeDiffs, w, case),
        _ => None,
    }
}
