use vlib::common::{eval_on, build_calc, Cfg};
use vlib::engine;

fn probe(args: &[String]) {
    let mut cfg = Cfg::default();
    let mut lang = "en".to_string();
    let mut lines = vec![];
    let mut i = 0;
    let mut ui = false;
    while i < args.len() {
        match args[i].as_str() {
            "--lang" => { lang = args[i + 1].clone(); i += 1; }
            "--dec" => { cfg.dec = Some(args[i + 1].clone()); i += 1; }
            "--thou" => { cfg.thou = Some(args[i + 1].clone()); i += 1; }
            "--tz" => { cfg.tz = Some(args[i + 1].clone()); i += 1; }
            "--digits" => { let d: u8 = args[i + 1].parse().unwrap(); cfg.num = Some((d, true, true)); i += 1; }
            "--ui" => ui = true,
            other => lines.push(other.to_string()),
        }
        i += 1;
    }
    let calc = build_calc(&cfg);
    for l in lines {
        let text = l.replace("\\n", "\n");
        match eval_on(&calc, &lang, &text) {
            Ok(o) => {
                println!("{:?} status={} ", text, o.status);
                for (k, s) in o.slots.iter().enumerate() {
                    println!("   [{}] {}", k, s.brief());
                    if ui { println!("       ui={:?}", o.ui[k]); }
                }
            }
            Err(p) => println!("{:?} PANIC at {} :: {} ({})", text, p.site, p.message, p.location),
        }
    }
}

fn main() {
    std::env::set_var("TZ", "UTC");
    engine::install_panic_hook();
    let args: Vec<String> = std::env::args().skip(1).collect();
    if args.is_empty() {
        eprintln!("usage: vcheck <ID> [quick|thorough] | --replay <file> | probe ...");
        std::process::exit(3);
    }
    if args[0] == "probe" {
        probe(&args[1..]);
        return;
    }
    if args[0] == "--hang-probe" {
        // re-run one stuck input in a fresh process: {"case": {"cfg":..,"lang":..,"text":..}}
        let body: serde_json::Value = serde_json::from_str(&std::fs::read_to_string(&args[1]).expect("read")).expect("json");
        let c = &body["case"];
        let cfg: Cfg = serde_json::from_value(c["cfg"].clone()).unwrap_or_default();
        let calc = build_calc(&cfg);
        let _ = eval_on(&calc, c["lang"].as_str().unwrap_or("en"), c["text"].as_str().unwrap_or(""));
        return;
    }
    if args[0] == "fuzz-dict" {
        print!("{}", vlib::fuzzdec::dictionary());
        return;
    }
    if args[0] == "--replay" {
        let raw = std::fs::read(&args[1]).expect("read replay file");
        let body: serde_json::Value = match std::str::from_utf8(&raw).ok().and_then(|s| serde_json::from_str::<serde_json::Value>(s).ok()).filter(|j| j.get("property").is_some()) {
            Some(j) => j,
            None => {
                // a raw libFuzzer artefact: <ID>-fuzz-<seed>-crash-<hash>
                let name = std::path::Path::new(&args[1]).file_name().map(|s| s.to_string_lossy().to_string()).unwrap_or_default();
                let id = name.split('-').next().unwrap_or("").to_string();
                let hex: String = raw.iter().map(|b| format!("{:02x}", b)).collect();
                serde_json::json!({"property": id, "sub": "fuzz", "case": {"id": id, "hex": hex}})
            }
        };
        let id = vlib::static_id(body["property"].as_str().unwrap_or("")).expect("unknown property in replay file");
        let ctx = engine::Ctx::new(id, engine::Tier::Quick);
        let slot = std::sync::Arc::new(engine::WatchSlot { current: std::sync::Mutex::new(None) });
        let mut w = engine::Worker::new(0, engine::Tier::Quick, slot, std::sync::Arc::new(Default::default()));
        w.frozen = true;
        let _ = &ctx;
        match vlib::replay_property(id, &mut w, body["sub"].as_str().unwrap_or(""), &body["case"]) {
            Some(v) => {
                eprintln!("input: {:?}", v.rendered);
                match v.res {
                    engine::Res::Fail { msg, kf } => {
                        eprintln!("still fails: {} (known-finding signature: {:?})", msg, kf);
                        println!("VIOLATION property={} replay={}", id, args[1]);
                        std::process::exit(1);
                    }
                    other => {
                        eprintln!("does not fail: {:?}", other);
                        std::process::exit(0);
                    }
                }
            }
            None => {
                eprintln!("cannot decode the case of sub-check {:?}", body["sub"]);
                std::process::exit(3);
            }
        }
    }
    let id = match vlib::static_id(&args[0]) {
        Some(id) => id,
        None => {
            eprintln!("unknown property {}", args[0]);
            std::process::exit(3);
        }
    };
    let tier = vlib::parse_tier(args.get(1).map(|s| s.as_str()).unwrap_or("quick")).unwrap_or_else(|| {
        eprintln!("tier must be quick or thorough");
        std::process::exit(3)
    });
    if let Ok(t) = std::env::var("VERIF_TIER") {
        if !t.is_empty() && t != tier.name() {
            eprintln!("note: VERIF_TIER={} differs from the tier argument {}; the argument wins", t, tier.name());
        }
    }
    let ctx = engine::Ctx::new(id, tier);
    ctx.replay_findings(&|w, sub, case| vlib::replay_property(id, w, sub, case));
    if !vlib::run_property(id, &ctx) {
        eprintln!("property {} has no check", id);
        std::process::exit(3);
    }
    std::process::exit(ctx.finish());
}
