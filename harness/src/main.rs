use vlib::common::{eval_on, build_calc, Cfg};
use vlib::engine;

fn probe(args: &[String]) {
    let mut cfg = Cfg::default();
    let mut lang = "en".to_string();
    let mut lines = vec![];
    let mut i = 0;
    let mut ui = false;
    while i < args.len() {
        match args[i].as_str() {
            "--lang" => { lang = args[i + 1].clone(); i += 1; }
            "--dec" => { cfg.dec = Some(args[i + 1].clone()); i += 1; }
            "--thou" => { cfg.thou = Some(args[i + 1].clone()); i += 1; }
            "--tz" => { cfg.tz = Some(args[i + 1].clone()); i += 1; }
            "--digits" => { let d: u8 = args[i + 1].parse().unwrap(); cfg.num = Some((d, true, true)); i += 1; }
            "--ui" => ui = true,
            other => lines.push(other.to_string()),
        }
        i += 1;
    }
    let calc = build_calc(&cfg);
    for l in lines {
        let text = l.replace("\\n", "\n");
        match eval_on(&calc, &lang, &text) {
            Ok(o) => {
                println!("{:?} status={} ", text, o.status);
                for (k, s) in o.slots.iter().enumerate() {
                    println!("   [{}] {}", k, s.brief());
                    if ui { println!("       ui={:?}", o.ui[k]); }
                }
            }
            Err(p) => println!("{:?} PANIC at {} :: {} ({})", text, p.site, p.message, p.location),
        }
    }
}

/// Run `vcheck <args>` as a child process. Some(code) = it exited by itself; None = it was killed by a signal
/// (stack overflow -> SIGABRT/SIGSEGV, OOM kill ...) or did not finish within the limit.
fn run_child(args: &[String], journal: Option<&str>, limit_s: Option<u64>) -> Option<i32> {
    run_child_watched(args, journal, limit_s, None)
}

/// `stall_s`: kill the child when one of its journal files has held the same case for that long (a worker thread is
/// stuck inside one case - an evaluation that does not terminate and is not under the in-process watchdog)
fn run_child_watched(args: &[String], journal: Option<&str>, limit_s: Option<u64>, stall_s: Option<u64>) -> Option<i32> {
    let exe = std::env::current_exe().expect("current_exe");
    let mut cmd = std::process::Command::new(exe);
    cmd.args(args).env("VERIF_CHILD", "1");
    match journal {
        Some(d) => {
            cmd.env("VERIF_JOURNAL_DIR", d);
        }
        None => {
            cmd.env_remove("VERIF_JOURNAL_DIR");
        }
    }
    let mut child = cmd.spawn().expect("spawn child");
    let t0 = std::time::Instant::now();
    loop {
        match child.try_wait() {
            Ok(Some(st)) => return st.code(),
            Ok(None) => {
                if let Some(l) = limit_s {
                    if t0.elapsed().as_secs() > l {
                        let _ = child.kill();
                        let _ = child.wait();
                        return None;
                    }
                }
                if let (Some(st), Some(dir)) = (stall_s, journal) {
                    if t0.elapsed().as_secs() % 5 == 0 && engine::stalled_journals(dir, st) > 0 {
                        eprintln!("a worker thread of the check has been inside one case for more than {} s: stopping the check process", st);
                        let _ = child.kill();
                        let _ = child.wait();
                        return None;
                    }
                }
                std::thread::sleep(std::time::Duration::from_millis(if limit_s.is_some() { 50 } else { 200 }));
            }
            Err(_) => return Some(3),
        }
    }
}

/// The check itself runs in a child process; if that process dies (a stack overflow or abort inside the library
/// cannot be caught in-process), every case a worker thread was busy with is replayed in a fresh process, and the
/// one that kills its process again is the violation.
fn supervise(id: &'static str, tier: engine::Tier, args: &[String]) -> ! {
    let t0 = std::time::Instant::now();
    let base = if std::path::Path::new("/dev/shm").is_dir() { "/dev/shm".to_string() } else { format!("{}/replays", engine::verif_dir()) };
    let dir = format!("{}/vcheck-journal-{}", base, std::process::id());
    let _ = std::fs::remove_dir_all(&dir);
    let _ = std::fs::create_dir_all(&dir);
    let stall: u64 = std::env::var("VERIF_STALL_S").ok().and_then(|s| s.parse().ok()).unwrap_or(180);
    let code = run_child_watched(args, Some(&dir), None, Some(stall));
    if let Some(c) = code {
        let _ = std::fs::remove_dir_all(&dir);
        std::process::exit(c);
    }
    eprintln!("[{}] the check process died or was stopped because a case did not finish; replaying the cases its threads were working on, each in a fresh process (90 s limit)", id);
    let cases = engine::read_journal(&dir);
    let rdir = format!("{}/replays", engine::verif_dir());
    let _ = std::fs::create_dir_all(&rdir);
    let seed = std::env::var("VERIF_SEED").ok().and_then(|s| s.trim().parse::<i64>().ok()).unwrap_or(1);
    let mut found = vec![];
    for (k, c) in cases.iter().enumerate() {
        let path = format!("{}/{}-crash-{}-{}.json", rdir, id, seed, k);
        let mut body = c.clone();
        body["message"] = serde_json::Value::String("the process evaluating this case was killed by a signal (stack overflow / abort inside the library) or did not finish within 90 s (evaluation does not terminate)".into());
        let _ = std::fs::write(&path, serde_json::to_string_pretty(&body).unwrap());
        match run_child(&["--replay".to_string(), path.clone()], None, Some(90)) {
            Some(0) => {
                let _ = std::fs::remove_file(&path);
            }
            _ => found.push((path, c.clone())),
        }
    }
    let _ = std::fs::remove_dir_all(&dir);
    let samples: Vec<serde_json::Value> = found.iter().map(|(_, c)| c.clone()).collect();
    let ev = serde_json::json!({
        "property_id": id, "tier": tier.name(), "seed": seed, "level": "exploration",
        "wall_s": t0.elapsed().as_secs_f64(), "violations": found.len(), "exit_code": if found.is_empty() { 2 } else { 1 },
        "coverage": {"evaluations": 0, "distinct_nontrivial": 0, "exhaustive": false, "samples": samples,
            "rule": "the check process was killed by a signal before it could report; the cases its worker threads were busy with were replayed one by one in fresh processes"},
        "assumptions": [], "notes": ["process death in the library under test (stack overflow / abort): counts are not available for this run"],
    });
    let _ = std::fs::create_dir_all(format!("{}/evidence", engine::verif_dir()));
    let _ = std::fs::write(format!("{}/evidence/{}.json", engine::verif_dir(), id), serde_json::to_string_pretty(&ev).unwrap());
    if found.is_empty() {
        eprintln!("[{}] none of the {} journalled cases kills a fresh process: inconclusive (exit 2)", id, cases.len());
        std::process::exit(2);
    }
    for (p, c) in &found {
        println!("VIOLATION property={} replay={}", id, p);
        eprintln!("  sub={} the process dies (or fails) on this case: {}", c["sub"].as_str().unwrap_or(""), serde_json::to_string(&c["case"]).unwrap_or_default().chars().take(400).collect::<String>());
    }
    std::process::exit(1);
}

fn main() {
    std::env::set_var("TZ", "UTC");
    engine::install_panic_hook();
    let args: Vec<String> = std::env::args().skip(1).collect();
    if args.is_empty() {
        eprintln!("usage: vcheck <ID> [quick|thorough] | --replay <file> | probe ...");
        std::process::exit(3);
    }
    if args[0] == "probe" {
        probe(&args[1..]);
        return;
    }
    if args[0] == "--hang-probe" {
        // re-run one stuck input in a fresh process: {"case": {"cfg":..,"lang":..,"text":..}}
        let body: serde_json::Value = serde_json::from_str(&std::fs::read_to_string(&args[1]).expect("read")).expect("json");
        let c = &body["case"];
        let cfg: Cfg = serde_json::from_value(c["cfg"].clone()).unwrap_or_default();
        let calc = build_calc(&cfg);
        let _ = eval_on(&calc, c["lang"].as_str().unwrap_or("en"), c["text"].as_str().unwrap_or(""));
        return;
    }
    if args[0] == "fuzz-dict" {
        print!("{}", vlib::fuzzdec::dictionary());
        return;
    }
    if args[0] == "--replay" && std::env::var("VERIF_CHILD").is_err() {
        // replay in a child: a case that kills its process is still reported as failing
        match run_child(&args, None, Some(600)) {
            Some(c) => std::process::exit(c),
            None => {
                eprintln!("still fails: the process replaying the case was killed by a signal (or did not finish in 600 s)");
                let id = std::fs::read_to_string(&args[1]).ok().and_then(|s| serde_json::from_str::<serde_json::Value>(&s).ok()).and_then(|j| j["property"].as_str().map(|s| s.to_string())).unwrap_or_default();
                println!("VIOLATION property={} replay={}", id, args[1]);
                std::process::exit(1);
            }
        }
    }
    if args[0] == "--replay" {
        let raw = std::fs::read(&args[1]).expect("read replay file");
        let body: serde_json::Value = match std::str::from_utf8(&raw).ok().and_then(|s| serde_json::from_str::<serde_json::Value>(s).ok()).filter(|j| j.get("property").is_some()) {
            Some(j) => j,
            None => {
                // a raw libFuzzer artefact: <ID>-fuzz-<seed>-crash-<hash>
                let name = std::path::Path::new(&args[1]).file_name().map(|s| s.to_string_lossy().to_string()).unwrap_or_default();
                let id = name.split('-').next().unwrap_or("").to_string();
                let hex: String = raw.iter().map(|b| format!("{:02x}", b)).collect();
                serde_json::json!({"property": id, "sub": "fuzz", "case": {"id": id, "hex": hex}})
            }
        };
        let id = vlib::static_id(body["property"].as_str().unwrap_or("")).expect("unknown property in replay file");
        let ctx = engine::Ctx::new(id, engine::Tier::Quick);
        let slot = std::sync::Arc::new(engine::WatchSlot { current: std::sync::Mutex::new(None) });
        let mut w = engine::Worker::new(0, engine::Tier::Quick, slot, std::sync::Arc::new(Default::default()));
        w.frozen = true;
        let _ = &ctx;
        match vlib::replay_property(id, &mut w, body["sub"].as_str().unwrap_or(""), &body["case"]) {
            Some(v) => {
                eprintln!("input: {:?}", v.rendered);
                match v.res {
                    engine::Res::Fail { msg, kf } => {
                        eprintln!("still fails: {} (known-finding signature: {:?})", msg, kf);
                        println!("VIOLATION property={} replay={}", id, args[1]);
                        std::process::exit(1);
                    }
                    other => {
                        eprintln!("does not fail: {:?}", other);
                        std::process::exit(0);
                    }
                }
            }
            None => {
                eprintln!("cannot decode the case of sub-check {:?}", body["sub"]);
                std::process::exit(3);
            }
        }
    }
    let id = match vlib::static_id(&args[0]) {
        Some(id) => id,
        None => {
            eprintln!("unknown property {}", args[0]);
            std::process::exit(3);
        }
    };
    let tier = vlib::parse_tier(args.get(1).map(|s| s.as_str()).unwrap_or("quick")).unwrap_or_else(|| {
        eprintln!("tier must be quick or thorough");
        std::process::exit(3)
    });
    if let Ok(t) = std::env::var("VERIF_TIER") {
        if !t.is_empty() && t != tier.name() {
            eprintln!("note: VERIF_TIER={} differs from the tier argument {}; the argument wins", t, tier.name());
        }
    }
    if std::env::var("VERIF_CHILD").is_err() {
        supervise(id, tier, &args);
    }
    let ctx = engine::Ctx::new(id, tier);
    ctx.replay_findings(&|w, sub, case| vlib::replay_property(id, w, sub, case));
    if !vlib::run_property(id, &ctx) {
        eprintln!("property {} has no check", id);
        std::process::exit(3);
    }
    std::process::exit(ctx.finish());
}
