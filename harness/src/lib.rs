pub mod calendar;
pub mod common;
pub mod custom_units;
pub mod engine;
pub mod fuzzdec;
pub mod vocab;
pub mod c01;
pub mod c02;
pub mod c03;
pub mod c04;
pub mod c05;
pub mod c06;
pub mod c07;
pub mod c08;
pub mod c09;
pub mod c10;
pub mod c11;
pub mod c12;
pub mod c13;
pub mod c14;
pub mod c15;
pub mod c16;
pub mod c17;
pub mod c18;
pub mod c19;
pub mod lines;
pub mod mixed;

use engine::{Ctx, Tier, Verdict, Worker};

pub const PROPS: [&str; 19] = ["C01", "C02", "C03", "C04", "C05", "C06", "C07", "C08", "C09", "C10", "C11", "C12", "C13", "C14", "C15", "C16", "C17", "C18", "C19"];

pub fn run_property(id: &str, ctx: &Ctx) -> bool {
    match id {
        "C01" => c01::run(ctx),
        "C02" => c02::run(ctx),
        "C03" => c03::run(ctx),
        "C04" => c04::run(ctx),
        "C05" => c05::run(ctx),
        "C06" => c06::run(ctx),
        "C07" => c07::run(ctx),
        "C08" => c08::run(ctx),
        "C09" => c09::run(ctx),
        "C10" => c10::run(ctx),
        "C11" => c11::run(ctx),
        "C12" => c12::run(ctx),
        "C13" => c13::run(ctx),
        "C14" => c14::run(ctx),
        "C15" => c15::run(ctx),
        "C16" => c16::run(ctx),
        "C17" => c17::run(ctx),
        "C18" => c18::run(ctx),
        "C19" => c19::run(ctx),
        _ => return false,
    }
    true
}

pub fn replay_property(id: &str, w: &mut Worker, sub: &str, case: &serde_json::Value) -> Option<Verdict> {
    if sub == "fuzz" {
        return fuzzdec::replay(w, case);
    }
    match id {
        "C01" => c01::replay(w, sub, case),
        "C02" => c02::replay(w, sub, case),
        "C03" => c03::replay(w, sub, case),
        "C04" => c04::replay(w, sub, case),
        "C05" => c05::replay(w, sub, case),
        "C06" => c06::replay(w, sub, case),
        "C07" => c07::replay(w, sub, case),
        "C08" => c08::replay(w, sub, case),
        "C09" => c09::replay(w, sub, case),
        "C10" => c10::replay(w, sub, case),
        "C11" => c11::replay(w, sub, case),
        "C12" => c12::replay(w, sub, case),
        "C13" => c13::replay(w, sub, case),
        "C14" => c14::replay(w, sub, case),
        "C15" => c15::replay(w, sub, case),
        "C16" => c16::replay(w, sub, case),
        "C17" => c17::replay(w, sub, case),
        "C18" => c18::replay(w, sub, case),
        "C19" => c19::replay(w, sub, case),
        _ => None,
    }
}

pub fn static_id(id: &str) -> Option<&'static str> {
    PROPS.iter().copied().find(|p| *p == id)
}

pub fn parse_tier(s: &str) -> Option<Tier> {
    match s {
        "quick" => Some(Tier::Quick),
        "thorough" => Some(Tier::Thorough),
        _ => None,
    }
}
