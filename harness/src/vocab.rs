//! Vocabulary read from /repo/src/json/config.json at start-up (follows the tree under test),
//! plus the reserved-word computation that keeps invented identifiers out of harm's way.

use serde_json::Value as J;
use std::collections::{BTreeMap, BTreeSet};
use std::sync::OnceLock;

#[derive(Clone, Debug)]
pub struct Currency {
    pub code: String, // upper case, as printed in CurrencyInfo.code
    pub key: String,  // lower case key
    pub symbol: String,
    pub on_left: bool,
    pub space: bool,
    pub digits: u8,
    pub rate: f64,
}

#[derive(Clone, Debug)]
pub struct Unit {
    pub group: String,
    pub index: usize,
    pub names: Vec<String>,       // target names (config "names")
    pub parse_names: Vec<String>, // source spellings (from "parse" patterns)
    pub format: String,
}

#[derive(Clone, Debug, Default)]
pub struct Lang {
    pub long_months: BTreeMap<String, u32>,
    pub short_months: BTreeMap<String, u32>,
    pub constants: BTreeMap<String, u32>,
    pub alias: BTreeMap<String, String>,
    pub word_group: BTreeMap<String, Vec<String>>,
    pub duration_format: Vec<(String, String, String)>, // (count, format, type)
    pub date_format: BTreeMap<String, String>,
}

#[derive(Clone, Debug)]
pub struct Vocab {
    pub rated: Vec<Currency>,
    /// every configured currency by lower-case key (rate = NaN when it has none)
    pub currencies: BTreeMap<String, Currency>,
    /// alias (lower case, as configured) -> currency key
    pub currency_alias: BTreeMap<String, String>,
    pub all_currency_keys: BTreeSet<String>,
    pub zones: BTreeMap<String, i32>,
    pub langs: BTreeMap<String, Lang>,
    pub units: Vec<Unit>,
    pub global_alias: BTreeMap<String, String>,
    pub reserved: BTreeSet<String>,
}

static VOCAB: OnceLock<Vocab> = OnceLock::new();

pub fn vocab() -> &'static Vocab {
    VOCAB.get_or_init(load)
}

fn load() -> Vocab {
    let path = std::env::var("VERIF_CONFIG_JSON").unwrap_or_else(|_| format!("{}/src/json/config.json", crate::engine::repo_dir()));
    let text = std::fs::read_to_string(&path).unwrap_or_else(|e| {
        eprintln!("cannot read {}: {}", path, e);
        std::process::exit(3)
    });
    let j: J = serde_json::from_str(&text).unwrap_or_else(|e| {
        eprintln!("cannot parse {}: {}", path, e);
        std::process::exit(3)
    });
    let mut rated = vec![];
    let currencies = j["currencies"].as_object().cloned().unwrap_or_default();
    let mut all_currency_keys = BTreeSet::new();
    let mut cur_by_key = BTreeMap::new();
    for (k, c) in currencies.iter() {
        all_currency_keys.insert(k.to_lowercase());
        cur_by_key.insert(k.to_lowercase(), c.clone());
    }
    for (k, r) in j["currency_rates"].as_object().cloned().unwrap_or_default() {
        if let Some(c) = cur_by_key.get(&k.to_lowercase()) {
            rated.push(Currency {
                code: c["code"].as_str().unwrap_or("").to_string(),
                key: k.to_lowercase(),
                symbol: c["symbol"].as_str().unwrap_or("").to_string(),
                on_left: c["symbolOnLeft"].as_bool().unwrap_or(false),
                space: c["spaceBetweenAmountAndSymbol"].as_bool().unwrap_or(false),
                digits: c["decimalDigits"].as_u64().unwrap_or(2) as u8,
                rate: r.as_f64().unwrap_or(1.0),
            });
        }
    }
    rated.sort_by(|a, b| a.key.cmp(&b.key));
    let mut all_cur = BTreeMap::new();
    for (k, c) in cur_by_key.iter() {
        all_cur.insert(
            k.clone(),
            Currency {
                code: c["code"].as_str().unwrap_or("").to_string(),
                key: k.clone(),
                symbol: c["symbol"].as_str().unwrap_or("").to_string(),
                on_left: c["symbolOnLeft"].as_bool().unwrap_or(false),
                space: c["spaceBetweenAmountAndSymbol"].as_bool().unwrap_or(false),
                digits: c["decimalDigits"].as_u64().unwrap_or(2) as u8,
                rate: rated.iter().find(|r| r.key == *k).map(|r| r.rate).unwrap_or(f64::NAN),
            },
        );
    }
    let mut currency_alias = BTreeMap::new();
    for (k, v) in j["currency_alias"].as_object().cloned().unwrap_or_default() {
        currency_alias.insert(k.clone(), v.as_str().unwrap_or("").to_string());
    }
    let mut zones = BTreeMap::new();
    for (k, v) in j["timezones"].as_object().cloned().unwrap_or_default() {
        zones.insert(k.clone(), v.as_i64().unwrap_or(0) as i32);
    }
    let mut langs = BTreeMap::new();
    for (name, l) in j["languages"].as_object().cloned().unwrap_or_default() {
        let mut lang = Lang::default();
        for (k, v) in l["long_months"].as_object().cloned().unwrap_or_default() {
            lang.long_months.insert(k, v.as_u64().unwrap_or(0) as u32);
        }
        for (k, v) in l["short_months"].as_object().cloned().unwrap_or_default() {
            lang.short_months.insert(k, v.as_u64().unwrap_or(0) as u32);
        }
        for (k, v) in l["constant_pair"].as_object().cloned().unwrap_or_default() {
            lang.constants.insert(k, v.as_u64().unwrap_or(0) as u32);
        }
        for (k, v) in l["alias"].as_object().cloned().unwrap_or_default() {
            lang.alias.insert(k, v.as_str().unwrap_or("").to_string());
        }
        for (k, v) in l["word_group"].as_object().cloned().unwrap_or_default() {
            lang.word_group.insert(k, v.as_array().cloned().unwrap_or_default().iter().map(|x| x.as_str().unwrap_or("").to_string()).collect());
        }
        for d in l["format"]["duration"].as_array().cloned().unwrap_or_default() {
            lang.duration_format.push((d["count"].as_str().unwrap_or("").to_string(), d["format"].as_str().unwrap_or("").to_string(), d["duration_type"].as_str().unwrap_or("").to_string()));
        }
        for (k, v) in l["format"]["date"].as_object().cloned().unwrap_or_default() {
            lang.date_format.insert(k, v.as_str().unwrap_or("").to_string());
        }
        langs.insert(name, lang);
    }
    let mut units = vec![];
    for t in j["types"].as_array().cloned().unwrap_or_default() {
        let group = t["name"].as_str().unwrap_or("").to_string();
        for it in t["items"].as_array().cloned().unwrap_or_default() {
            let mut parse_names = vec![];
            for p in it["parse"].as_array().cloned().unwrap_or_default() {
                let p = p.as_str().unwrap_or("");
                // "{NUMBER:value} {TEXT:type:kg}"  or "{NUMBER:value} megabyte"
                if let Some(rest) = p.strip_prefix("{NUMBER:value} ") {
                    if let Some(inner) = rest.strip_prefix("{TEXT:type:") {
                        parse_names.push(inner.trim_end_matches('}').to_string());
                    } else if !rest.contains('{') {
                        parse_names.push(rest.to_string());
                    }
                }
            }
            units.push(Unit {
                group: group.clone(),
                index: it["index"].as_u64().unwrap_or(0) as usize,
                names: it["names"].as_array().cloned().unwrap_or_default().iter().map(|x| x.as_str().unwrap_or("").to_string()).collect(),
                parse_names,
                format: it["format"].as_str().unwrap_or("").to_string(),
            });
        }
    }
    let mut global_alias = BTreeMap::new();
    for (k, v) in j["alias"].as_object().cloned().unwrap_or_default() {
        global_alias.insert(k, v.as_str().unwrap_or("").to_string());
    }

    // reserved words (lower case)
    let mut reserved: BTreeSet<String> = BTreeSet::new();
    for k in all_currency_keys.iter() {
        reserved.insert(k.clone());
    }
    for k in currency_alias.keys() {
        reserved.insert(k.to_lowercase());
    }
    for k in zones.keys() {
        reserved.insert(k.to_lowercase());
    }
    for u in &units {
        for n in u.names.iter().chain(u.parse_names.iter()) {
            reserved.insert(n.to_lowercase());
        }
    }
    for l in langs.values() {
        for k in l.long_months.keys().chain(l.short_months.keys()).chain(l.constants.keys()).chain(l.alias.keys()) {
            reserved.insert(k.to_lowercase());
        }
        for g in l.word_group.values() {
            for w in g {
                reserved.insert(w.to_lowercase());
            }
        }
    }
    for w in ["am", "pm", "date", "unix", "unixtime", "unixtimestamp", "hex", "hexadecimal", "octal", "binary", "decimal", "of", "on", "off", "is", "what", "at", "to", "in", "into", "as", "arası", "gmt", "k", "m", "g", "t", "p", "z", "y"] {
        reserved.insert(w.to_string());
    }
    Vocab { rated, currencies: all_cur, currency_alias, all_currency_keys, zones, langs, units, global_alias, reserved }
}

impl Vocab {
    pub fn currency(&self, key: &str) -> Option<&Currency> {
        self.rated.iter().find(|c| c.key == key)
    }
    pub fn rate(&self, key: &str) -> f64 {
        self.currency(key).map(|c| c.rate).unwrap_or(f64::NAN)
    }
    /// Is `word` safe to invent as an identifier / filler word: not reserved, does not upper-case
    /// to a zone key, is not a 2+ letter currency code, contains only ASCII letters.
    pub fn is_safe_word(&self, word: &str) -> bool {
        let lw = word.to_lowercase();
        if self.reserved.contains(&lw) {
            return false;
        }
        if lw.len() >= 2 && lw.len() <= 4 && self.zones.contains_key(&lw.to_uppercase()) {
            return false;
        }
        if lw.starts_with("gmt") {
            return false;
        }
        true
    }
    /// month names of a language that the month parser can actually recognise: the parser keeps
    /// one long and one short name per month (the last one in key order).
    /// the names of a month in a language: long names (sorted), then short names (sorted). For the two shipped
    /// languages the table is fixed HERE (the calendar's month names are facts, not configuration: a configuration
    /// or loader that maps a name to the wrong month must not be believed); other languages follow config.json.
    /// the names a date of that month is PRINTED with: (long name - used when the year is not shown, short name - used
    /// with the year). For Turkish these are the language's own spellings (Şubat, Ağustos ...), not the ASCII typing
    /// aids that are accepted on input; None for a language whose tables are read from config.json.
    pub fn month_print_names(&self, lang: &str, month: u32) -> Option<(String, String)> {
        const EN: [(&str, &str); 12] = [("January", "Jan"), ("February", "Feb"), ("March", "Mar"), ("April", "Apr"), ("May", "May"), ("June", "Jun"), ("July", "Jul"), ("August", "Aug"), ("September", "Sep"), ("October", "Oct"), ("November", "Nov"), ("December", "Dec")];
        const TR: [(&str, &str); 12] = [("Ocak", "Oca"), ("Şubat", "Şub"), ("Mart", "Mar"), ("Nisan", "Nis"), ("Mayıs", "May"), ("Haziran", "Haz"), ("Temmuz", "Tem"), ("Ağustos", "Ağu"), ("Eylül", "Eyl"), ("Ekim", "Eki"), ("Kasım", "Kas"), ("Aralık", "Ara")];
        if !(1..=12).contains(&month) {
            return None;
        }
        match lang {
            "en" => Some((EN[month as usize - 1].0.to_string(), EN[month as usize - 1].1.to_string())),
            "tr" => Some((TR[month as usize - 1].0.to_string(), TR[month as usize - 1].1.to_string())),
            _ => None,
        }
    }
    pub fn month_names(&self, lang: &str, month: u32) -> Vec<String> {
        const EN_LONG: [&str; 12] = ["january", "february", "march", "april", "may", "june", "july", "august", "september", "october", "november", "december"];
        const EN_SHORT: [&str; 12] = ["jan", "feb", "mar", "apr", "may", "jun", "jul", "aug", "sep", "oct", "nov", "dec"];
        const TR_LONG: [&[&str]; 12] = [&["ocak"], &["subat", "şubat"], &["mart"], &["nisan"], &["mayis", "mayıs"], &["haziran"], &["temmuz"], &["agustos", "ağustos"], &["eylul", "eylül"], &["ekim"], &["kasim", "kasım"], &["aralik", "aralık"]];
        const TR_SHORT: [&[&str]; 12] = [&["oca"], &["sub", "şub"], &["mar"], &["nis"], &["may"], &["haz"], &["tem"], &["agu", "ağu"], &["eyl"], &["eki"], &["kas"], &["ara"]];
        if month < 1 || month > 12 {
            return vec![];
        }
        let i = month as usize - 1;
        match lang {
            "en" => return vec![EN_LONG[i].to_string(), EN_SHORT[i].to_string()],
            "tr" => return TR_LONG[i].iter().chain(TR_SHORT[i].iter()).map(|s| s.to_string()).collect(),
            _ => {}
        }
        let l = match self.langs.get(lang) {
            Some(l) => l,
            None => return vec![],
        };
        let mut v: Vec<String> = l.long_months.iter().filter(|(_, m)| **m == month).map(|(k, _)| k.clone()).collect();
        v.extend(l.short_months.iter().filter(|(_, m)| **m == month).map(|(k, _)| k.clone()));
        v
    }
}

/// Words that are safe to use as variable names / rule keywords / filler (checked at start-up
/// against the reserved set; the list itself is fixed so that runs are reproducible).
pub const SAFE_WORDS: [&str; 40] = [
    "total", "cost", "net", "price", "rent", "salary", "bonus", "width", "height", "depth", "speed", "alpha", "beta", "gamma", "delta", "foo", "bar", "baz", "qux", "amount", "budget", "income", "outcome", "profit",
    "margin", "share", "ratio", "value", "result", "answer", "first", "second_value", "third", "apples", "pears", "plums", "xyzzy", "quux", "corge", "grault",
];

pub fn safe_words() -> Vec<&'static str> {
    let v = vocab();
    SAFE_WORDS.iter().copied().filter(|w| !w.contains('_') && v.is_safe_word(w)).collect()
}
