//! C08 — separators affect only reading and printing of numbers, never the computed value.

use crate::common::{Slot, NT, READ_SEPS, V};
use crate::engine::{Acc, Ctx, Prop, Verdict, Worker};
use crate::lines::Class;
use crate::mixed::{any_line, GenLine};
use proptest::prelude::*;
use serde::{Deserialize, Serialize};

#[derive(Clone, Debug, Serialize, Deserialize)]
pub struct Case {
    pub g: GenLine,
    pub a: usize,
    pub b: usize,
    /// order of the two separator setters on the re-configured calculator: bit 0 for A, bit 1 for B (set = thousands first);
    /// bits 2-3: number / percentage format in force on BOTH sides (0 default, 1 rounding off, 2 four digits with the
    /// zero fraction kept, 3 no digits and rounding off); bit 4: on the re-configured calculator each text is read first under
    /// the OTHER convention
    #[serde(default)]
    pub order: u8,
}

pub struct Separators;

/// a comma glued to a number (`feb 12, 2020`) is not a numeric literal of any convention
fn has_glued_comma(g: &GenLine) -> bool {
    g.all_lines().iter().any(|l| l.toks.iter().any(|t| t.num.is_some() && (t.post.starts_with(',') || t.post.starts_with('.'))))
}

impl Prop for Separators {
    type Case = Case;
    fn name(&self) -> &'static str {
        "separators"
    }
    fn check(&self, w: &mut Worker, c: &Case) -> Verdict {
        let (da, ta) = READ_SEPS[c.a % 4];
        let (db, tb) = READ_SEPS[c.b % 4];
        let text_a = c.g.text(da, ta);
        let text_b = c.g.text(db, tb);
        let rendered = format!("[{}] dec={:?} thou={:?}: {:?}  ->  dec={:?} thou={:?}: {:?}", c.g.src, da, ta, text_a, db, tb, text_b);
        let glued_comma = has_glued_comma(&c.g);
        let today0 = chrono::Utc::now().date_naive();
        let fmt = match (c.order >> 2) & 3 {
            0 => None,
            1 => Some((2u8, true, false)),
            2 => Some((4u8, false, true)),
            _ => Some((0u8, true, false)),
        };
        let with_fmt = |mut cfg: crate::common::Cfg| {
            cfg.num = fmt;
            cfg.pct = fmt;
            cfg
        };
        let (cfg_a, cfg_b) = (with_fmt(c.g.cfg(da, ta)), with_fmt(c.g.cfg(db, tb)));
        let rendered = if fmt.is_some() { format!("{} [number/percentage format {:?}]", rendered, fmt.unwrap()) } else { rendered };
        let oa = match w.eval(&cfg_a, &c.g.lang, &text_a) {
            Ok(o) => o,
            Err(p) => return Verdict::fail(format!("panic at {}: {}", p.site, p.message), rendered),
        };
        let ob = match w.eval(&cfg_b, &c.g.lang, &text_b) {
            Ok(o) => o,
            Err(p) => return Verdict::fail(format!("panic at {}: {}", p.site, p.message), rendered),
        };
        let mut acc = Acc::new();
        if oa.slots.len() != ob.slots.len() {
            acc.fail(format!("{} slots vs {}", oa.slots.len(), ob.slots.len()));
        }
        let mut any_ok = false;
        let mut printed_compared = 0;
        for (i, (x, y)) in oa.slots.iter().zip(ob.slots.iter()).enumerate() {
            let same = match (x, y) {
                (Slot::Ok { v: vx, .. }, Slot::Ok { v: vy, .. }) => {
                    any_ok = true;
                    vx.same(vy)
                }
                (Slot::Err(a), Slot::Err(b)) => a == b,
                (Slot::Nothing, Slot::Nothing) => true,
                _ => false,
            };
            if !same {
                if chrono::Utc::now().date_naive() != today0 {
                    return Verdict::skip("date changed during the case", rendered);
                }
                acc.fail(format!("line {}: {} under dec={:?}/thou={:?} but {} under dec={:?}/thou={:?}", i + 1, x.brief(), da, ta, y.brief(), db, tb));
                break;
            }
            // "... how numbers are read and PRINTED": the printed forms of one and the same number, percentage or
            // unit quantity differ in the separators only
            if let (Slot::Ok { v: vx, out: px }, Slot::Ok { v: vy, out: py }) = (x, y) {
                let payload = |v: &V| match v {
                    V::Num(n, crate::common::NT::Decimal) | V::Pct(n) | V::Unit(n, _, _) => Some(n.to_bits()),
                    _ => None,
                };
                if let (Some(bx), Some(by)) = (payload(vx), payload(vy)) {
                    if bx == by {
                        let norm = |s: &str, d: &str, t: &str| {
                            let s = if t.is_empty() { s.to_string() } else { s.replace(t, "") };
                            s.replace(d, "\u{1}")
                        };
                        printed_compared += 1;
                        if norm(px, da, ta) != norm(py, db, tb) {
                            acc.fail(format!("line {}: the same value is printed {:?} under dec={:?}/thou={:?} but {:?} under dec={:?}/thou={:?}: more than the separators differs", i + 1, px, da, ta, py, db, tb));
                            break;
                        }
                    }
                }
            }
        }
        // the same on ONE calculator that is re-configured through the setters between the evaluations, with each
        // text also read once under the other convention in between (its result is not asserted): what a literal
        // denotes depends on the configuration in force, not on anything read before
        let mut reconfigured = false;
        if acc.ok() {
            let (mut ca, mut cb) = (cfg_a.clone(), cfg_b.clone());
            ca.order = c.order & 1;
            cb.order = (c.order >> 1) & 1;
            // the sequence starts from the library's default configuration, so that a case is self-contained
            let start = crate::common::Cfg::default();
            // one case in eight starts on a fresh scratch calculator: whatever the library remembers then comes from THIS
            // sequence alone (building a calculator costs as much as a hundred evaluations)
            if c.order >> 4 & 1 == 1 && c.a % 4 == 0 {
                w.calcs.forget_scratch();
            }
            // every other case reads each text FIRST under the other convention (a value remembered from the first
            // reading must not be served to the second)
            let steps: [(&crate::common::Cfg, &str, Option<&crate::common::EvalOut>); 6] = if (c.order >> 4) & 1 == 0 {
                [(&start, "1", None), (&ca, &text_a, Some(&oa)), (&cb, &text_a, None), (&cb, &text_b, Some(&ob)), (&ca, &text_b, None), (&ca, &text_a, Some(&oa))]
            } else {
                [(&start, "1", None), (&cb, &text_a, None), (&ca, &text_a, Some(&oa)), (&ca, &text_b, None), (&cb, &text_b, Some(&ob)), (&ca, &text_a, Some(&oa))]
            };
            for (k, (cfg, text, expect)) in steps.iter().enumerate() {
                match w.eval_reconfigured(cfg, &c.g.lang, text) {
                    Ok(o) => {
                        if let Some(e) = expect {
                            let same = o.slots.len() == e.slots.len() && o.slots.iter().zip(e.slots.iter()).all(|(x, y)| x.same(y));
                            if !same {
                                if chrono::Utc::now().date_naive() != today0 {
                                    return Verdict::skip("date changed during the case", rendered);
                                }
                                acc.fail(format!("step {} on one re-configured calculator: {:?} under {} gives {:?}, a calculator built for that configuration gives {:?}", k + 1, text, cfg.label(), o.slots.iter().map(|s| s.brief()).collect::<Vec<_>>(), e.slots.iter().map(|s| s.brief()).collect::<Vec<_>>()));
                                break;
                            }
                        }
                    }
                    Err(p) => {
                        acc.fail(format!("panic at {}: {}", p.site, p.message));
                        break;
                    }
                }
            }
            reconfigured = true;
        }
        // reader check: every plain literal alone denotes the number the generator started from
        let mut literals = 0;
        if acc.ok() {
            'outer: for l in c.g.all_lines() {
                for t in &l.toks {
                    if t.class != Class::Number || !t.pre.is_empty() {
                        continue;
                    }
                    let n = match &t.num {
                        Some(n) => n,
                        None => continue,
                    };
                    let factor = match t.post.as_str() {
                        "" => 1.0,
                        s if s.chars().count() == 1 && "kKMGTPZY".contains(s) => crate::c02::suffix_factor(s.chars().next().unwrap()),
                        _ => continue,
                    };
                    for (d, th) in [(da, ta), (db, tb)] {
                        let lit = t.text(d, th);
                        literals += 1;
                        match w.eval1(&crate::common::Cfg::seps(d, th), "en", &lit) {
                            Ok(Slot::Ok { v: V::Num(v, NT::Decimal), .. }) if v == n.value() * factor => {}
                            Ok(o) => {
                                acc.fail(format!("the literal {:?} under dec={:?}/thou={:?} denotes {} but reads as {}", lit, d, th, n.value() * factor, o.brief()));
                                break 'outer;
                            }
                            Err(e) => {
                                acc.fail(e);
                                break 'outer;
                            }
                        }
                    }
                }
            }
        }
        let frac_or_group = c.g.all_lines().iter().any(|l| l.has_fraction_or_group(ta) || l.has_fraction_or_group(tb));
        let reenters = matches!(c.g.src.as_str(), "C12" | "C06") || c.g.all_lines().iter().any(|l| l.toks.iter().any(|t| t.class == Class::Operator && t.pre == "/"));
        let src: &'static str = match c.g.src.as_str() {
            "C02" => "from:C02",
            "C03" => "from:C03(variables)",
            "C05" => "from:C05",
            "C06" => "from:C06",
            "C09" => "from:C09",
            "C10" => "from:C10",
            "C11" => "from:C11",
            "C12" => "from:C12",
            "C13" => "from:C13",
            _ => "from:C14",
        };
        acc.finish(rendered).nt(any_ok && frac_or_group && reenters).class(src).class_if(frac_or_group, "has-fraction-or-thousands-group").class_if(reenters, "conversion-or-division").class_if(literals > 0, "literals-read-alone").class_if(any_ok, "evaluates-ok").class_if(reconfigured, "also-on-one-reconfigured-calculator").class_if(printed_compared > 0, "printed-forms-compared").class_if(fmt.is_some(), "non-default-number-format").class_if(glued_comma, "punctuation-glued-to-a-number(Mon d, y)")
    }
}

pub fn case_strategy() -> impl Strategy<Value = Case> {
    (any_line(), 0usize..4, 1usize..4, 0u8..4, prop_oneof![2 => Just(0u8), 1 => 1u8..4]).prop_map(|(g, a, d, order, fmt)| Case { g, a, b: (a + d) % 4, order: order | (fmt << 2) | ((((a + d) % 2) as u8) << 4) })
}

pub fn regressions() -> Vec<Case> {
    use crate::lines::{Line, NumLit, Tok};
    let conv = |a: f64, u1: &str, u2: &str| Line::new(vec![Tok::num(NumLit::new(a)), Tok::word(u1, Class::Unit), Tok::word("to", Class::Conn), Tok::word(u2, Class::Unit)]);
    let mut out = vec![];
    for (a, b) in [(0usize, 1usize), (1, 0), (0, 2), (3, 1)] {
        // F70: 1 inch to mm, 1 km to mile, 2,5 km to m
        out.push(Case { g: GenLine::simple(conv(1.0, "inch", "mm"), "C12"), a, b, order: 0 });
        out.push(Case { g: GenLine::simple(conv(1.0, "km", "mile"), "C12"), a, b, order: 0 });
        out.push(Case { g: GenLine::simple(conv(2.5, "km", "m"), "C12"), a, b, order: 0 });
        out.push(Case { g: GenLine::simple(conv(1234.5, "g", "lb"), "C12"), a, b, order: 0 });
    }
    out
}

pub fn run(ctx: &Ctx) {
    ctx.rule("lines (and 2-line programs storing a value in a variable) from the generators of C02, C03, C05, C06, C09-C14 kept as token lists with tagged numeric literals x ordered pairs of the four reading conventions (',' '.', '.' ',', '.' '', ',' ''); plus user-defined unit families whose conversion codes hold fractional constants (2.5, 16.5, 0.25, 1000.5), registered before or after the separator setters, converted along the chain under all four conventions (expected: amount x or / factor per link); the printed forms of one and the same number / percentage / quantity under the two conventions differ in the separators only (also under three non-default number formats); on the re-configured calculator every other case reads each text first under the OTHER convention; oracle (metamorphic): the line rendered for convention A and evaluated under A, and rendered for B and evaluated under B, give bit-identical AST values (same kind, same f64, same unit/currency/zone), the same results on ONE calculator that is re-configured through the setters between the evaluations (A: L_A, B: L_A unasserted, B: L_B, A: L_B unasserted, A: L_A), and every plain literal evaluated alone under its convention denotes the number the generator started from; non-trivial = the line evaluates, contains a literal with a fraction or a thousands group AND a computation that re-enters the tokenizer or divides (unit conversion, currency conversion, '/')");
    ctx.assume("a literal is always rendered for the convention it is evaluated under; a comma glued to the day of 'Mon d, y' is punctuation, not part of the literal, under every convention");
    ctx.run_table(&Separators, "regressions", regressions(), false);
    ctx.run_generated(&Separators, ctx.tier.pick(40_000, 600_000), case_strategy);
    // conversion codes of user-defined families with fractional constants: the same conversions under every convention,
    // whether the family was registered before or after the separators were set
    ctx.run_generated(&crate::custom_units::CustomUnits, ctx.tier.pick(300, 5_000), || crate::custom_units::case_strategy("C08"));
}

pub fn replay(w: &mut Worker, sub: &str, case: &serde_json::Value) -> Option<Verdict> {
    match sub {
        "separators" => crate::engine::replay_case(&Separators, w, case),
        "custom-units" => crate::custom_units::replay(w, case),
        _ => None,
    }
}
