//! C05 — percentage phrases compute the textbook formulas for numbers and money.

use crate::c06::{money_lit, rated_key, MoneyLit};
use crate::common::{close, close_scaled, Cfg, Slot, NT, READ_SEPS, V};
use crate::engine::{Acc, Ctx, Prop, Verdict, Worker};
use crate::lines::{Class, Line, NumLit, Tok};
use crate::vocab::vocab;
use proptest::prelude::*;
use serde::{Deserialize, Serialize};

#[derive(Clone, Debug, Serialize, Deserialize)]
pub enum Amount {
    Plain(NumLit),
    Money(MoneyLit),
    /// a whole number written as a 0x / 0o / 0b literal: (value, base 16 | 8 | 2) - a number like any other
    Based(u32, u8),
}

impl Amount {
    pub fn value(&self) -> f64 {
        match self {
            Amount::Plain(n) => n.value(),
            Amount::Money(m) => m.value(),
            Amount::Based(n, _) => *n as f64,
        }
    }
    pub fn code(&self) -> Option<String> {
        match self {
            Amount::Plain(_) | Amount::Based(..) => None,
            Amount::Money(m) => Some(m.code()),
        }
    }
    pub fn tok(&self) -> Tok {
        match self {
            Amount::Plain(n) => Tok::num(n.clone()),
            Amount::Money(m) => m.tok(),
            Amount::Based(n, b) => crate::c13::Src { n: *n as u64, base: *b, frac: None, prefix_upper: false, digit_case: 0, pad: 0 }.tok(),
        }
    }
}

#[derive(Clone, Debug, Serialize, Deserialize)]
pub struct Pct {
    pub p: NumLit,
    /// true: `%p`, false: `p%`
    pub prefix: bool,
}

impl Pct {
    pub fn tok(&self) -> Tok {
        if self.prefix {
            Tok::with("%", self.p.clone(), "", Class::Percent)
        } else {
            Tok::with("", self.p.clone(), "%", Class::Percent)
        }
    }
}

#[derive(Clone, Copy, Debug, PartialEq, Serialize, Deserialize)]
pub enum Phrase {
    /// X + p%
    Plus,
    /// X - p%
    Minus,
    /// p% of X
    OfPX,
    /// X of p%
    OfXP,
    OnPX,
    OnXP,
    OffPX,
    OffXP,
    /// A is what % of B
    WhatPct,
    /// A is p% of what
    OfWhat,
}

pub const PHRASES: [Phrase; 10] = [Phrase::Plus, Phrase::Minus, Phrase::OfPX, Phrase::OfXP, Phrase::OnPX, Phrase::OnXP, Phrase::OffPX, Phrase::OffXP, Phrase::WhatPct, Phrase::OfWhat];

#[derive(Clone, Debug, Serialize, Deserialize)]
pub struct Case {
    pub phrase: Phrase,
    pub x: Amount,
    /// second amount (B of `A is what % of B`)
    pub b: Amount,
    pub p: Pct,
    /// blanks around the operator of X + p% / X - p% (0 or 1 each side)
    pub op_space: (u8, u8),
    pub seps: usize,
    /// additionally evaluate the phrase with X (bit 0) and/or p (bit 1) held in a variable bound on an earlier line
    #[serde(default)]
    pub via: u8,
    /// order in which the two separators are set on the calculator (odd: thousands first); 2 and 3: the line is
    /// evaluated under the language tag tr (the phrases are the same words in every configured language)
    #[serde(default)]
    pub order: u8,
}

fn div0(a: f64, b: f64) -> f64 {
    let r = a / b;
    if r.is_finite() {
        r
    } else {
        0.0
    }
}

/// the seven textbook formulas
pub fn formulas(x: f64, p: f64, b: f64) -> [f64; 7] {
    [
        x * (1.0 + p / 100.0), // X + p%, p% on X
        x * (1.0 - p / 100.0), // X - p%, p% off X
        x * p / 100.0,         // p% of X
        x * (1.0 + p / 100.0),
        x * (1.0 - p / 100.0),
        div0(100.0 * x, b), // A is what % of B
        div0(100.0 * x, p), // A is p% of what
    ]
}

pub enum Expect {
    Num(f64),
    Money(f64, String),
    Pct(f64),
}

pub fn expected(c: &Case) -> Expect {
    let x = c.x.value();
    let p = c.p.p.value();
    let b = c.b.value();
    let f = formulas(x, p, b);
    let wrap = |v: f64| match c.x.code() {
        Some(code) => Expect::Money(v, code),
        None => Expect::Num(v),
    };
    match c.phrase {
        Phrase::Plus | Phrase::OnPX | Phrase::OnXP => wrap(f[0]),
        Phrase::Minus | Phrase::OffPX | Phrase::OffXP => wrap(f[1]),
        Phrase::OfPX | Phrase::OfXP => wrap(f[2]),
        Phrase::WhatPct => Expect::Pct(f[5]),
        Phrase::OfWhat => wrap(f[6]),
    }
}

pub fn case_line(c: &Case) -> Line {
    case_line_with(c, None, None)
}

/// the phrase with X and/or p replaced by a variable name
pub fn case_line_with(c: &Case, x_name: Option<&str>, p_name: Option<&str>) -> Line {
    let kw = |w: &str| Tok::word(w, Class::Conn);
    let x = match x_name {
        Some(n) => Tok::word(n, Class::Var),
        None => c.x.tok(),
    };
    let p = match p_name {
        Some(n) => Tok::word(n, Class::Var),
        None => c.p.tok(),
    };
    // `10€+5%` lexes as `10` and the symbol-before literal `€+5`: a symbol written after the amount
    // needs a blank before a sign (the grammar is ambiguous there, not the property)
    let sym_after = matches!(&c.x, Amount::Money(m) if matches!(m.spelling, crate::c06::Spelling::SymAfter(_)));
    let s0 = if sym_after || x_name.is_some() { c.op_space.0.max(1) } else { c.op_space.0 };
    let p = if p_name.is_some() { p.sp(1) } else { p };
    let v = match c.phrase {
        Phrase::Plus => vec![x, Tok::op('+').sp(s0), p.sp(if p_name.is_some() { 1 } else { c.op_space.1 })],
        Phrase::Minus => vec![x, Tok::op('-').sp(s0), p.sp(if p_name.is_some() { 1 } else { c.op_space.1 })],
        Phrase::OfPX => vec![p, kw("of"), x],
        Phrase::OfXP => vec![x, kw("of"), p],
        Phrase::OnPX => vec![p, kw("on"), x],
        Phrase::OnXP => vec![x, kw("on"), p],
        Phrase::OffPX => vec![p, kw("off"), x],
        Phrase::OffXP => vec![x, kw("off"), p],
        Phrase::WhatPct => vec![x, kw("is"), kw("what"), Tok::word("%", Class::Operator), kw("of"), c.b.tok()],
        Phrase::OfWhat => vec![x, kw("is"), p, kw("of"), kw("what")],
    };
    Line::new(v)
}

pub struct PctProp;

impl Prop for PctProp {
    type Case = Case;
    fn name(&self) -> &'static str {
        "percent"
    }
    fn check(&self, w: &mut Worker, c: &Case) -> Verdict {
        let (dec, thou) = READ_SEPS[c.seps % 4];
        let mut cfg = Cfg::seps(dec, thou);
        cfg.order = c.order % 2;
        let line = case_line(c).render(dec, thou);
        let lang = if c.order >= 2 { "tr" } else { "en" };
        let rendered = format!("[{}{}] {}", cfg.label(), if lang == "tr" { " language tr" } else { "" }, line);
        let slot = match w.eval1(&cfg, lang, &line) {
            Ok(s) => s,
            Err(e) => return Verdict::fail(e, rendered),
        };
        let mut acc = Acc::new();
        // F51 (see c06): `<amount><suffix> <symbol>` does not cover its currency
        let f51_shape = |a: &Amount| matches!(a, Amount::Money(m) if m.suffix.is_some() && matches!(m.spelling, crate::c06::Spelling::SymAfter(_)));
        let kf = if f51_shape(&c.x) || (c.phrase == Phrase::WhatPct && f51_shape(&c.b)) { Some("F51") } else { None };
        // X + p% and X - p% are sums: the tolerance is relative to the operands, not to a result that may cancel
        let scale = c.x.value().abs().max((c.x.value() * c.p.p.value() / 100.0).abs());
        match (&slot, expected(c)) {
            // (what notation the result of a phrase over a based literal is shown in is C13's business: the VALUE is asserted)
            (Slot::Ok { v: V::Num(g, nt), .. }, Expect::Num(e)) if *nt == NT::Decimal || matches!(c.x, Amount::Based(..)) => {
                if !close_scaled(*g, e, scale) {
                    acc.fail(format!("expected {} got {}", e, g));
                }
            }
            (Slot::Ok { v: V::Money(g, gc), .. }, Expect::Money(e, ec)) => {
                if *gc != ec {
                    acc.fail(format!("expected currency {} got {}", ec, gc));
                } else if !close_scaled(*g, e, scale) {
                    // failure shape of F51: the result is the first literal alone
                    acc.fail_kf(format!("expected {} {} got {}", e, ec, g), if close(*g, c.x.value()) { kf } else { None });
                }
            }
            (Slot::Ok { v: V::Pct(g), .. }, Expect::Pct(e)) => {
                if !close(*g, e) {
                    acc.fail(format!("expected %{} got %{}", e, g));
                }
            }
            (s, Expect::Num(e)) => acc.fail(format!("expected Number({}) got {}", e, s.brief())),
            (s, Expect::Money(e, ec)) => acc.fail_kf(format!("expected Money({}, {}) got {}", e, ec, s.brief()), if matches!(s, Slot::Err(m) if m == "No more token") { kf } else { None }),
            (s, Expect::Pct(e)) => acc.fail_kf(format!("expected Percent({}) got {}", e, s.brief()), if matches!(s, Slot::Ok { v: V::Money(g, _), .. } if close(*g, c.x.value())) { kf } else { None }),
        }
        // metamorphic: the other percent spelling gives exactly the same result
        if acc.ok() && c.phrase != Phrase::WhatPct {
            let mut c2 = c.clone();
            c2.p.prefix = !c.p.prefix;
            let line2 = case_line(&c2).render(dec, thou);
            match w.eval1(&cfg, lang, &line2) {
                Ok(s2) => {
                    if !s2.same(&slot) {
                        acc.fail(format!("spelling {:?} gives {} but {:?} gives {}", line, slot.brief(), line2, s2.brief()));
                    }
                }
                Err(e) => acc.fail(e),
            }
        }
        // metamorphic: X and/or p held in a variable bound on an earlier line give exactly the same result
        let mut via_checked = false;
        if acc.ok() && c.via % 4 != 0 && kf.is_none() {
            let xn = if c.via & 1 != 0 { Some("rent") } else { None };
            let pn = if c.via & 2 != 0 && c.phrase != Phrase::WhatPct { Some("bonus") } else { None };
            if xn.is_some() || pn.is_some() {
                let mut text = String::new();
                if xn.is_some() {
                    text.push_str(&format!("rent = {}\n", Line::new(vec![c.x.tok()]).render(dec, thou)));
                }
                if pn.is_some() {
                    text.push_str(&format!("bonus = {}\n", Line::new(vec![c.p.tok()]).render(dec, thou)));
                }
                let line3 = case_line_with(c, xn, pn).render(dec, thou);
                text.push_str(&line3);
                match w.eval(&cfg, lang, &text) {
                    Ok(o) => {
                        via_checked = true;
                        let last = o.slots.last().cloned().unwrap_or(Slot::Nothing);
                        if !last.same(&slot) {
                            acc.fail(format!("{:?} gives {} but with the operands held in variables ({:?}) it gives {}", line, slot.brief(), text, last.brief()));
                        }
                    }
                    Err(pn) => acc.fail(format!("panic at {}: {}", pn.site, pn.message)),
                }
            }
        }
        // non-trivial: p not in {0,100}, X != 0 and the formulas pairwise differ for this input
        let x = c.x.value();
        let p = c.p.p.value();
        let f = formulas(x, p, c.b.value());
        let distinct = [f[0], f[1], f[2], f[5], f[6]];
        let mut pairwise = true;
        for i in 0..distinct.len() {
            for j in (i + 1)..distinct.len() {
                if close(distinct[i], distinct[j]) {
                    pairwise = false;
                }
            }
        }
        let nt = p != 0.0 && p != 100.0 && x != 0.0 && pairwise;
        let cls: &'static str = match c.phrase {
            Phrase::Plus => "X + p%",
            Phrase::Minus => "X - p%",
            Phrase::OfPX => "p% of X",
            Phrase::OfXP => "X of p%",
            Phrase::OnPX => "p% on X",
            Phrase::OnXP => "X on p%",
            Phrase::OffPX => "p% off X",
            Phrase::OffXP => "X off p%",
            Phrase::WhatPct => "A is what % of B",
            Phrase::OfWhat => "A is p% of what",
        };
        acc.finish(rendered).nt(nt).class(cls).class_if(c.x.code().is_some(), "money").class_if(c.p.prefix, "%p-spelling").class_if(p < 0.0, "negative-percent").class_if(x < 0.0, "negative-amount").class_if(p.fract() != 0.0, "fractional-percent").class_if(via_checked, "operands-also-via-variables").class_if(lang == "tr", "language-tag-tr")
    }
}

// ---- several phrases on one line -----------------------------------------------------------------

/// `phrase + phrase + ...` (2-12 number-valued phrases of the of / on / off / of-what kind): the value of the line
/// is the sum of the values of its phrases - every occurrence of a phrase is computed, not only the first few
#[derive(Clone, Debug, Serialize, Deserialize)]
pub struct SumCase {
    pub terms: Vec<Case>,
    /// the X of every phrase is held in a name of its own, bound on an earlier line (`x1 = 50` ... / `x1 off 10% + x2 of 20%`)
    #[serde(default)]
    pub names: bool,
}

pub struct PhraseSums;

impl Prop for PhraseSums {
    type Case = SumCase;
    fn name(&self) -> &'static str {
        "phrase-sums"
    }
    fn check(&self, w: &mut Worker, c: &SumCase) -> Verdict {
        let cfg = Cfg::default();
        const NAMES: [&str; 12] = ["alpha", "beta", "gamma", "delta", "net fee", "gross fee", "rent", "bonus", "ürün", "stock", "margin", "share"];
        let mut defs: Vec<String> = vec![];
        let line = c
            .terms
            .iter()
            .enumerate()
            .map(|(i, t)| {
                let l = case_line(t);
                if !c.names {
                    return l.render(",", ".");
                }
                // the X of the phrase is the one plain number token that is not the percentage
                match l.toks.iter().position(|tk| tk.class == crate::lines::Class::Number) {
                    Some(pos) => {
                        let two = l.via_variable(pos, pos + 1, NAMES[i % NAMES.len()], ",", ".");
                        let (d, u) = two.split_once('\n').unwrap();
                        defs.push(d.to_string());
                        u.to_string()
                    }
                    None => l.render(",", "."),
                }
            })
            .collect::<Vec<_>>()
            .join(" + ");
        let line = if defs.is_empty() { line } else { format!("{}\n{}", defs.join("\n"), line) };
        let rendered = line.replace('\n', " ; ");
        let mut exp = 0.0;
        let mut scale: f64 = 1.0;
        for t in &c.terms {
            match expected(t) {
                Expect::Num(v) => {
                    exp += v;
                    scale = scale.max(v.abs());
                }
                _ => return Verdict::skip("a term is not number-valued", rendered),
            }
        }
        let slot = match w.eval(&cfg, "en", &line) {
            Ok(o) => o.slots.last().cloned().unwrap_or(Slot::Nothing),
            Err(p) => return Verdict::fail(format!("panic at {}: {}", p.site, p.message), rendered),
        };
        let mut acc = Acc::new();
        match &slot {
            Slot::Ok { v: V::Num(g, NT::Decimal), .. } if close_scaled(*g, exp, scale) => {}
            other => acc.fail(format!("the {} phrases sum to {} but the line gives {}", c.terms.len(), exp, other.brief())),
        }
        let same_kind = c.terms.windows(2).all(|p| p[0].phrase == p[1].phrase);
        acc.finish(rendered).nt(c.terms.len() >= 2).class("several-phrases-on-one-line").class_if(c.terms.len() >= 9, "nine-or-more-phrases").class_if(same_kind, "all-phrases-of-one-kind").class_if(c.names, "operands-held-in-names")
    }
}

fn sum_small() -> impl Strategy<Value = NumLit> {
    (1u32..=2000, 0u8..3).prop_map(|(v, d)| NumLit::new(v as f64 / 10f64.powi(d as i32)))
}

fn sum_term(ph: BoxedStrategy<Phrase>) -> impl Strategy<Value = Case> {
    (ph, sum_small(), sum_small(), any::<bool>()).prop_map(|(phrase, x, p, prefix)| Case { phrase, x: Amount::Plain(x), b: Amount::Plain(NumLit::new(1.0)), p: Pct { p, prefix }, op_space: (1, 1), seps: 0, via: 0, order: 0 })
}

pub fn sum_strategy() -> impl Strategy<Value = SumCase> {
    let kinds = vec![Phrase::OfPX, Phrase::OfXP, Phrase::OnPX, Phrase::OnXP, Phrase::OffPX, Phrase::OffXP, Phrase::OfWhat];
    prop_oneof![
        // phrases of one kind (the same rule has to fire once per occurrence)
        1 => prop::sample::select(kinds.clone()).prop_flat_map(|ph| prop::collection::vec(sum_term(Just(ph).boxed()), 2..13)),
        1 => prop::collection::vec(sum_term(prop::sample::select(kinds).boxed()), 2..13),
    ]
    .prop_map(|terms| SumCase { names: terms.len() % 3 == 2, terms })
}

pub fn value_strategy() -> impl Strategy<Value = NumLit> {
    let v = prop_oneof![
        4 => (0u32..=500).prop_map(|v| v as f64),
        3 => (0u32..=9_999_999).prop_map(|v| v as f64 / 100.0),
        2 => (0u32..=9_999_999, 1u32..=6).prop_map(|(n, d)| format!("{}.{:0width$}", n / 10u32.pow(d), n % 10u32.pow(d), width = d as usize).parse::<f64>().unwrap()),
        1 => prop_oneof![Just(0.0), Just(100.0), Just(0.000001), Just(1e9), Just(50.0), Just(1.0)],
    ];
    (v, prop_oneof![5 => Just(0u8), 2 => Just(1u8), 1 => Just(2u8)], any::<bool>()).prop_map(|(v, sign, group)| NumLit { v, sign, group })
}

pub fn amount_strategy() -> impl Strategy<Value = Amount> {
    // "money in any currency": also the configured currencies that have no rate in the shipped table (cad, aed, egp ...),
    // written `<amount> <code>`
    let unrated: Vec<String> = vocab().all_currency_keys.iter().filter(|k| !vocab().rated.iter().any(|r| r.key == **k)).cloned().collect();
    let any_code = (crate::c06::amount_strategy(), prop::sample::select(unrated), 1u8..=2, 0u8..5, any::<u32>()).prop_map(|(amount, cur, sp, cp, bits)| MoneyLit { amount, suffix: None, cur, spelling: crate::c06::Spelling::CodeAfter(sp, cp, bits) }.normalise());
    prop_oneof![3 => value_strategy().prop_map(Amount::Plain), 2 => money_lit(rated_key()).prop_map(Amount::Money), 1 => any_code.prop_map(Amount::Money), 1 => (0u32..=100_000, prop::sample::select(vec![16u8, 8, 2])).prop_map(|(n, b)| Amount::Based(n, b))]
}

pub fn case_strategy() -> impl Strategy<Value = Case> {
    (prop::sample::select(PHRASES.to_vec()), amount_strategy(), value_strategy(), value_strategy(), any::<bool>(), (0u8..=1, 0u8..=1), prop_oneof![3 => Just(0usize), 1 => 1usize..4], prop_oneof![3 => Just(0u8), 2 => 1u8..4], prop_oneof![4 => 0u8..2, 1 => 2u8..4]).prop_map(|(phrase, x, bv, p, prefix, op_space, seps, via, order)| {
        // `A is what % of B`: both plain or both in the same currency; in one case in four exactly one of the two is an
        // amount of money and the other a plain number (the percentage of the two amounts)
        let mixed = via == 3 && phrase == Phrase::WhatPct;
        let b = match (&x, mixed) {
            (Amount::Plain(_), false) | (Amount::Based(..), false) => Amount::Plain(bv),
            (Amount::Money(m), false) => Amount::Money(MoneyLit { amount: bv, suffix: None, ..m.clone() }.normalise()),
            (Amount::Plain(_), true) | (Amount::Based(..), true) => Amount::Money(MoneyLit { amount: bv, suffix: None, cur: "usd".into(), spelling: crate::c06::Spelling::CodeAfter(1, 0, 0) }),
            (Amount::Money(_), true) => Amount::Plain(bv),
        };
        // a based literal stands in the phrases a rule evaluates (of / on / off, either order)
        let phrase = if matches!(x, Amount::Based(..)) && matches!(phrase, Phrase::Plus | Phrase::Minus | Phrase::WhatPct | Phrase::OfWhat) { Phrase::OfPX } else { phrase };
        Case { phrase, x, b, p: Pct { p, prefix }, op_space, seps, via, order }
    })
}

pub fn table() -> Vec<Case> {
    // every phrase x {plain, $, code} x a boundary panel of (X, p)
    let mut out = vec![];
    let xs = [200.0, -200.0, 0.0, 12.5, 1e9];
    let ps = [10.0, -10.0, 0.0, 100.0, 12.5, 250.0];
    for ph in PHRASES {
        for x in xs {
            for p in ps {
                for kind in 0..3 {
                    for prefix in [false, true] {
                        let mk = |v: f64| match kind {
                            0 => Amount::Plain(NumLit::new(v)),
                            1 => Amount::Money(MoneyLit { amount: NumLit::new(v), suffix: None, cur: "usd".into(), spelling: crate::c06::Spelling::SymBefore }),
                            _ => Amount::Money(MoneyLit { amount: NumLit::new(v), suffix: None, cur: "try".into(), spelling: crate::c06::Spelling::CodeAfter(1, 0, 0) }),
                        };
                        out.push(Case { phrase: ph, x: mk(x), b: mk(80.0), p: Pct { p: NumLit::new(p), prefix }, op_space: (1, 1), seps: 0, via: if kind == 1 { 3 } else { 0 }, order: 0 });
                    }
                }
            }
        }
    }
    out
}

pub fn run(ctx: &Ctx) {
    ctx.rule("generated (X, A, B, p) from integers, fractions, negatives, zero and boundaries (100, 1e-6, 1e9), X/A/B plain or money in any rated currency and spelling, ten phrase shapes, both percent spellings, spaced and unspaced operators, 4 separator conventions; a fifth of the cases under the language tag tr; money also in configured currencies without a shipped rate (cad, aed, egp ...); oracle = the seven textbook formulas (x/0 = 0), kind Number / Money(same currency) / Percent, tolerance 1e-9, plus metamorphic equality of the p% and %p spellings, and (two cases in five) exact equality with the same phrase whose X and/or p are held in variables bound on earlier lines; second sub-check: 2-12 number-valued phrases joined by '+' on one line (all of one kind, or mixed) must give the sum of their values; non-trivial = p not in {0,100}, X != 0 and the formulas give pairwise different values for this input (a swapped formula cannot agree by accident)");
    ctx.assume("'6 %' and '% 6' are not percent literals (the lexer requires adjacency) and are not generated");
    ctx.run_table(&PctProp, "boundary-panel", table(), true);
    ctx.run_generated(&PctProp, ctx.tier.pick(150_000, 1_500_000), case_strategy);
    ctx.run_generated(&PhraseSums, ctx.tier.pick(20_000, 200_000), sum_strategy);
}

pub fn replay(w: &mut Worker, sub: &str, case: &serde_json::Value) -> Option<Verdict> {
    match sub {
        "percent" => crate::engine::replay_case(&PctProp, w, case),
        "phrase-sums" => crate::engine::replay_case(&PhraseSums, w, case),
        _ => None,
    }
}
