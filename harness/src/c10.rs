//! C10 — durations: unit lengths, additivity, greedy printing, `as` flooring.

use crate::common::{Cfg, Slot, V};
use crate::engine::{Acc, Ctx, Prop, Verdict, Worker};
use crate::lines::{Class, Line, NumLit, Tok};
use proptest::prelude::*;
use serde::{Deserialize, Serialize};

pub const SEC: i64 = 1;
pub const MIN: i64 = 60;
pub const HOUR: i64 = 3600;
pub const DAY: i64 = 86400;
pub const WEEK: i64 = 7 * DAY;
pub const MONTH: i64 = 30 * DAY;
pub const YEAR: i64 = 365 * DAY;
/// unit index: 0 second, 1 minute, 2 hour, 3 day, 4 week, 5 month, 6 year
pub const UNIT_LEN: [i64; 7] = [SEC, MIN, HOUR, DAY, WEEK, MONTH, YEAR];

/// input spellings per language and unit (hard-coded: the oracle does not read config.json)
pub fn spellings(lang: &str, unit: u8) -> Vec<&'static str> {
    match (lang, unit) {
        ("en", 0) => vec!["second", "seconds"],
        ("en", 1) => vec!["minute", "minutes"],
        ("en", 2) => vec!["hour", "hours"],
        ("en", 3) => vec!["day", "days"],
        ("en", 4) => vec!["week", "weeks"],
        ("en", 5) => vec!["month", "months"],
        ("en", 6) => vec!["year", "years"],
        ("tr", 0) => vec!["saniye"],
        ("tr", 1) => vec!["dakika"],
        ("tr", 2) => vec!["saat"],
        ("tr", 3) => vec!["gün", "gun"],
        ("tr", 4) => vec!["hafta"],
        ("tr", 5) => vec!["ay"],
        ("tr", 6) => vec!["yıl", "yil"],
        _ => vec![],
    }
}

/// printed word for (language, unit, count)
pub fn printed_word(lang: &str, unit: u8, count: i64) -> &'static str {
    match lang {
        "tr" => ["saniye", "dakika", "saat", "gün", "hafta", "ay", "yıl"][unit as usize],
        _ => {
            if count == 1 {
                ["second", "minute", "hour", "day", "week", "month", "year"][unit as usize]
            } else {
                ["seconds", "minutes", "hours", "days", "weeks", "months", "years"][unit as usize]
            }
        }
    }
}

#[derive(Clone, Debug, PartialEq, Serialize, Deserialize)]
pub struct Part {
    pub count: u32,
    pub unit: u8,
    pub spelling: u8,
    pub group: bool,
}

impl Part {
    pub fn seconds(&self) -> i64 {
        let n = self.count as i64;
        match self.unit {
            // twelve months make one year
            5 => (365 * (n / 12) + 30 * (n % 12)) * DAY,
            u => n * UNIT_LEN[u as usize],
        }
    }
    pub fn toks(&self, lang: &str) -> Vec<Tok> {
        let sp = spellings(lang, self.unit);
        let word = sp[self.spelling as usize % sp.len()];
        vec![Tok::num(NumLit { v: self.count as f64, sign: 0, group: self.group }), Tok::word(word, Class::DurWord)]
    }
}

#[derive(Clone, Debug, Serialize, Deserialize)]
pub struct Case {
    pub lang: String,
    /// groups of juxtaposed parts
    pub groups: Vec<Vec<Part>>,
    /// operator before group i+1: true '+', false '-'
    pub plus: Vec<bool>,
    /// (connective 0 as,1 to,2 in,3 into; target unit 0..=4; spelling)
    pub conv: Option<(u8, u8, u8)>,
    /// also evaluate the line with its first part held in a variable bound on an earlier line (`x = 90 seconds` /
    /// `x 45 seconds as minutes`): a duration is a duration, however it got there
    #[serde(default)]
    pub via_var: bool,
    /// set_number_configuration(digits, remove_fract_if_zero, use_fract_rounding): the counts of a printed duration are
    /// whole numbers, the number format has no say in how they are written
    #[serde(default)]
    pub num: Option<(u8, bool, bool)>,
}

pub const CONV_WORDS: [&str; 4] = ["as", "to", "in", "into"];

pub fn case_line(c: &Case) -> Line {
    let mut l = Line::default();
    for (i, g) in c.groups.iter().enumerate() {
        if i > 0 {
            l.push(Tok::op(if c.plus[i - 1] { '+' } else { '-' }));
        }
        for p in g {
            for t in p.toks(&c.lang) {
                l.push(t);
            }
        }
    }
    if let Some((conn, target, sp)) = c.conv {
        l.push(Tok::word(CONV_WORDS[conn as usize % 4], Class::Conn));
        let s = spellings("en", target);
        l.push(Tok::word(s[sp as usize % s.len()], Class::DurWord));
    }
    l
}

pub fn expected_seconds(c: &Case) -> i64 {
    let mut total: i64 = 0;
    for (i, g) in c.groups.iter().enumerate() {
        let s: i64 = g.iter().map(|p| p.seconds()).sum();
        if i == 0 || c.plus[i - 1] {
            total += s;
        } else {
            total -= s;
        }
    }
    if let Some((_, target, _)) = c.conv {
        let len = UNIT_LEN[target as usize];
        total = (total.abs() / len) * len;
    }
    total
}

/// greedy decomposition of a magnitude: (count, unit) from years down to seconds, zero parts omitted
pub fn greedy(mut secs: i64) -> Vec<(i64, u8)> {
    let mut out = vec![];
    for u in (0..7u8).rev() {
        let len = UNIT_LEN[u as usize];
        if secs >= len {
            out.push((secs / len, u));
            secs %= len;
        }
    }
    out
}

/// parse a printed duration back into (count, unit) parts with the language's own words
pub fn parse_printed(lang: &str, out: &str) -> Result<Vec<(i64, u8)>, String> {
    let words: Vec<&str> = out.split(' ').filter(|w| !w.is_empty()).collect();
    if words.len() % 2 != 0 {
        return Err(format!("odd number of words in {:?}", out));
    }
    let mut parts = vec![];
    for pair in words.chunks(2) {
        let count: i64 = pair[0].parse().map_err(|_| format!("count {:?} is not an integer", pair[0]))?;
        let mut unit = None;
        for u in 0..7u8 {
            if printed_word(lang, u, count) == pair[1] {
                unit = Some(u);
            }
        }
        match unit {
            Some(u) => parts.push((count, u)),
            None => return Err(format!("{:?} is not the {} word for any unit with count {}", pair[1], lang, count)),
        }
    }
    Ok(parts)
}

pub fn check_printed(lang: &str, out: &str, secs: i64) -> Result<(), String> {
    let parts = parse_printed(lang, out)?;
    let sum: i64 = parts.iter().map(|(c, u)| c * UNIT_LEN[*u as usize]).sum();
    if sum != secs.abs() {
        return Err(format!("printed parts {:?} sum to {} s, the magnitude is {} s", out, sum, secs.abs()));
    }
    for w in parts.windows(2) {
        if w[0].1 <= w[1].1 {
            return Err(format!("units are not strictly descending in {:?}", out));
        }
    }
    let g = greedy(secs.abs());
    if parts != g {
        return Err(format!("printed {:?} is not the greedy decomposition {:?}", out, g));
    }
    Ok(())
}

pub struct Durations;

impl Prop for Durations {
    type Case = Case;
    fn name(&self) -> &'static str {
        "durations"
    }
    fn check(&self, w: &mut Worker, c: &Case) -> Verdict {
        let cfg = Cfg { num: c.num, ..Cfg::default() };
        let line = case_line(c).render(",", ".");
        let rendered = if c.num.is_some() { format!("[{} number format {:?}] {}", c.lang, c.num.unwrap(), line) } else { format!("[{}] {}", c.lang, line) };
        let exp = expected_seconds(c);
        let slot = match w.eval1(&cfg, &c.lang, &line) {
            Ok(s) => s,
            Err(e) => return Verdict::fail(e, rendered),
        };
        let mut acc = Acc::new();
        match &slot {
            Slot::Ok { v: V::Dur(secs, nanos), out } => {
                if *secs != exp || *nanos != 0 {
                    acc.fail(format!("expected {} s got {} s (+{} ns)", exp, secs, nanos));
                } else if let Err(e) = check_printed(&c.lang, out, exp) {
                    acc.fail(e);
                }
            }
            other => acc.fail(format!("expected Duration({} s) got {}", exp, other.brief())),
        }
        // metamorphic: the first part held in a variable gives exactly the same result
        let mut via_checked = false;
        // (every other count: only the COUNT is held in the name - `x = 90` / `x minutes ...` - in either language)
        let count_only = c.groups.first().and_then(|g| g.first()).map_or(false, |p| p.count % 2 == 1 && !p.group);
        if acc.ok() && c.via_var && (c.lang == "en" || count_only) {
            if let Some(first) = c.groups.first().and_then(|g| g.first()) {
                let mut def = Line::default();
                def.push(Tok::word("x", Class::Var));
                def.push(Tok::op('='));
                for t in first.toks(&c.lang).into_iter().take(if count_only { 1 } else { 2 }) {
                    def.push(t);
                }
                let mut l = case_line(c);
                // the first part is `count word`: two tokens
                if l.toks.len() >= 2 {
                    l.toks.drain(0..if count_only { 1 } else { 2 });
                    l.toks.insert(0, Tok::word("x", Class::Var).sp(0));
                    if l.toks.len() > 1 && l.toks[1].space == 0 {
                        l.toks[1].space = 1;
                    }
                    let text = format!("{}\n{}", def.render(",", "."), l.render(",", "."));
                    match w.eval(&cfg, &c.lang, &text) {
                        Ok(o) if o.slots.len() == 2 => {
                            via_checked = true;
                            if !o.slots[1].same(&slot) {
                                acc.fail(format!("{:?} gives {} but with its first part held in a variable ({:?}) it gives {}", line, slot.brief(), text, o.slots[1].brief()));
                            }
                        }
                        Ok(o) => acc.fail(format!("{} slots for two lines", o.slots.len())),
                        Err(p) => acc.fail(format!("panic at {}: {}", p.site, p.message)),
                    }
                }
            }
        }
        // spacing: a '-' written directly in front of the count of a one-part group (`2 hours -30 minutes`,
        // `2 hours-30 minutes`) subtracts all the same
        let mut glued_checked = false;
        // (every '-' of the line is written that way: a spaced '-' in front of a run that contains a signed count would
        // subtract the whole run, sign included)
        let all_single = c.groups.iter().enumerate().all(|(i, g)| i == 0 || c.plus[i - 1] || g.len() == 1);
        if acc.ok() && all_single {
            let mut l = case_line(c);
            let mut idx = 0usize;
            let tight = c.groups[0][0].count % 2 == 0;
            for (i, g) in c.groups.iter().enumerate() {
                if i > 0 {
                    if !c.plus[i - 1] && g.len() == 1 {
                        l.toks[idx + 1].space = 0;
                        if tight {
                            l.toks[idx].space = 0;
                        }
                        glued_checked = true;
                    }
                    idx += 1;
                }
                idx += 2 * g.len();
            }
            if glued_checked {
                let text = l.render(",", ".");
                match w.eval1(&cfg, &c.lang, &text) {
                    Ok(s2) => {
                        if !s2.same(&slot) {
                            acc.fail(format!("{:?} gives {} but with the '-' written directly in front of the count ({:?}) it gives {}", line, slot.brief(), text, s2.brief()));
                        }
                    }
                    Err(e) => acc.fail(e),
                }
            }
        }
        let n_parts: usize = c.groups.iter().map(|g| g.len()).sum();
        let units: std::collections::BTreeSet<u8> = c.groups.iter().flatten().map(|p| p.unit).collect();
        let carry = c.groups.iter().flatten().any(|p| matches!((p.unit, p.count), (0, 59..=61) | (1, 59..=61) | (2, 23..=25) | (3, 6..=8) | (3, 29..=31) | (3, 364..=366) | (4, 4..=5) | (4, 52..=53) | (5, 11..=13) | (5, 24..=25)));
        let inexact_conv = c.conv.map_or(false, |(_, t, _)| {
            let mut cc = c.clone();
            cc.conv = None;
            expected_seconds(&cc).abs() % UNIT_LEN[t as usize] != 0
        });
        acc.finish(rendered)
            .nt((n_parts >= 2 && units.len() >= 2) || carry || inexact_conv)
            .class_if(c.lang == "tr", "lang:tr")
            .class_if(c.num.is_some(), "number-format-set")
            .class_if(c.conv.is_some(), "as-conversion")
            .class_if(inexact_conv, "as-conversion-floors")
            .class_if(c.plus.iter().any(|p| !*p), "has-subtraction")
            .class_if(exp < 0, "negative-result")
            .class_if(glued_checked, "minus-glued-to-the-count")
            .class_if(carry, "carry-boundary-count")
            .class_if(c.groups.iter().any(|g| g.len() >= 2), "juxtaposed-parts")
            .class_if(n_parts >= 5, "five-or-more-parts")
            .class_if(exp == 0, "zero-duration")
            .class_if(via_checked, "first-part-also-via-a-variable")
    }
}

pub fn part_strategy() -> impl Strategy<Value = Part> {
    let count = prop_oneof![
        4 => 0u32..=100,
        3 => prop::sample::select(vec![0u32, 1, 2, 11, 12, 13, 23, 24, 25, 29, 30, 31, 59, 60, 61, 6, 7, 8, 52, 53, 364, 365, 366, 999, 1000, 3599, 3600, 86399, 86400, 1_000_000]),
        2 => 0u32..=1_000_000,
    ];
    (count, 0u8..7, 0u8..2, prop::bool::weighted(0.15)).prop_map(|(count, unit, spelling, group)| Part { count, unit, spelling, group })
}

pub fn case_strategy() -> impl Strategy<Value = Case> {
    (case_strategy_literal(), prop::bool::weighted(0.3), prop_oneof![4 => Just(None), 1 => (0u8..=6, any::<bool>(), any::<bool>()).prop_map(Some)]).prop_map(|(mut c, v, num)| {
        c.via_var = v;
        c.num = num;
        c
    })
}

fn case_strategy_literal() -> impl Strategy<Value = Case> {
    let group = prop_oneof![3 => prop::collection::vec(part_strategy(), 1..=4), 1 => prop::collection::vec(part_strategy(), 5..=7)];
    (prop_oneof![2 => Just("en".to_string()), 1 => Just("tr".to_string())], prop::collection::vec(group, 1..=3), prop::collection::vec(prop::bool::weighted(0.6), 2), prop::option::weighted(0.3, (0u8..4, 0u8..5, 0u8..2))).prop_map(|(lang, mut groups, plus, conv)| {
        // at most seven parts in total
        let mut total = 0;
        let mut keep = 0;
        for g in groups.iter_mut() {
            let room = 7usize.saturating_sub(total);
            if room == 0 {
                break;
            }
            g.truncate(room);
            total += g.len();
            keep += 1;
        }
        groups.truncate(keep.max(1));
        let conv = if lang == "en" { conv } else { None };
        if conv.is_some() {
            // `D as unit` converts the duration it stands next to: a single group
            groups.truncate(1);
        }
        let plus = plus.into_iter().take(groups.len().saturating_sub(1)).collect();
        Case { lang, groups, plus, conv, via_var: false, num: None }
    })
}

pub fn table() -> Vec<Case> {
    let mut out = vec![];
    let counts = [0u32, 1, 2, 11, 12, 13, 23, 24, 25, 29, 30, 31, 59, 60, 61, 6, 7, 8, 52, 53, 364, 365, 366, 1000, 1_000_000];
    for lang in ["en", "tr"] {
        for unit in 0..7u8 {
            for sp in 0..spellings(lang, unit).len() as u8 {
                for count in counts {
                    let part = Part { count, unit, spelling: sp, group: false };
                    out.push(Case { lang: lang.into(), groups: vec![vec![part.clone()]], plus: vec![], conv: None, via_var: false, num: None });
                    if lang == "en" {
                        for target in 0..5u8 {
                            out.push(Case { lang: lang.into(), groups: vec![vec![part.clone()]], plus: vec![], conv: Some(((count % 4) as u8, target, (count % 2) as u8)), via_var: count % 3 == 0, num: None });
                        }
                    }
                }
            }
        }
    }
    out
}

// ---- more than one conversion on a line -------------------------------------------------------------------

/// `G1 as u1 +- G2 as u2` (each conversion floors the duration it stands next to, then the sum is taken) and
/// `G as u1 as u2` (the second conversion floors the result of the first); sources also held in names
#[derive(Clone, Debug, Serialize, Deserialize)]
pub struct TwoConv {
    pub g1: Vec<Part>,
    pub u1: u8,
    /// Some((plus, second group, its target)) or None = chained form `G1 as u1 as u2`
    pub second: Option<(bool, Vec<Part>, u8)>,
    pub u2: u8,
    pub conn: u8,
    pub via_var: bool,
}

pub struct Conversions;

fn floor_to(secs: i64, unit: u8) -> i64 {
    let len = UNIT_LEN[unit as usize];
    (secs.abs() / len) * len
}

impl Prop for Conversions {
    type Case = TwoConv;
    fn name(&self) -> &'static str {
        "several-conversions"
    }
    fn check(&self, w: &mut Worker, c: &TwoConv) -> Verdict {
        let cfg = Cfg::default();
        let words = |g: &Vec<Part>| -> String { g.iter().flat_map(|p| p.toks("en")).map(|t| t.text(",", ".")).collect::<Vec<_>>().join(" ") };
        let target = |u: u8| spellings("en", u)[0];
        let conn = CONV_WORDS[c.conn as usize % 4];
        let s1: i64 = c.g1.iter().map(|p| p.seconds()).sum();
        let (text, exp) = match &c.second {
            Some((plus, g2, u2)) => {
                let s2: i64 = g2.iter().map(|p| p.seconds()).sum();
                let e = if *plus { floor_to(s1, c.u1) + floor_to(s2, *u2) } else { floor_to(s1, c.u1) - floor_to(s2, *u2) };
                let op = if *plus { '+' } else { '-' };
                let t = if c.via_var {
                    format!("first leg = {}\nrest = {}\nfirst leg {} {} {} rest {} {}", words(&c.g1), words(g2), conn, target(c.u1), op, conn, target(*u2))
                } else {
                    format!("{} {} {} {} {} {} {}", words(&c.g1), conn, target(c.u1), op, words(g2), conn, target(*u2))
                };
                (t, e)
            }
            None => {
                let e = floor_to(floor_to(s1, c.u1), c.u2);
                let t = if c.via_var { format!("first leg = {}\nfirst leg {} {} {} {}", words(&c.g1), conn, target(c.u1), conn, target(c.u2)) } else { format!("{} {} {} {} {}", words(&c.g1), conn, target(c.u1), conn, target(c.u2)) };
                (t, e)
            }
        };
        let rendered = text.replace('\n', " ; ");
        let out = match w.eval(&cfg, "en", &text) {
            Ok(o) => o,
            Err(p) => return Verdict::fail(format!("panic at {}: {}", p.site, p.message), rendered),
        };
        let mut acc = Acc::new();
        match out.slots.last() {
            Some(Slot::Ok { v: V::Dur(secs, 0), .. }) if *secs == exp => {}
            other => acc.fail(format!("expected Duration({} s) got {:?}", exp, other.map(|s| s.brief()))),
        }
        acc.finish(rendered).nt(true).class(if c.second.is_some() { "two-conversions-in-a-sum" } else { "chained-conversions" }).class_if(c.via_var, "sources-held-in-names").class_if(c.g1.len() >= 2, "first-source-of-several-parts")
    }
}

pub fn twoconv_strategy() -> impl Strategy<Value = TwoConv> {
    // descending, distinct units with counts small enough for every floor to matter
    let group = || prop::collection::vec((1u32..=400, 0u8..5), 1..=3).prop_map(|v| {
        let mut v: Vec<Part> = v.into_iter().map(|(count, unit)| Part { count, unit, spelling: 0, group: false }).collect();
        v.sort_by(|a, b| b.unit.cmp(&a.unit));
        v.dedup_by_key(|p| p.unit);
        v
    });
    (group(), 0u8..5, prop::option::weighted(0.7, (any::<bool>(), group(), 0u8..5)), 0u8..5, 0u8..4, prop::bool::weighted(0.3)).prop_map(|(g1, u1, second, u2, conn, via_var)| TwoConv { g1, u1, second, u2, conn, via_var })
}

// ---- durations held in names, written side by side --------------------------------------------------------

/// `a b c [as unit]` where a, b, c are names bound to durations on earlier lines: the sum of the durations (floored to
/// the unit when converted), for two to five names
#[derive(Clone, Debug, Serialize, Deserialize)]
pub struct NamesRow {
    pub groups: Vec<Vec<Part>>,
    pub conv: Option<(u8, u8)>,
    /// evaluate under tr (unit words of that language, no conversion)
    #[serde(default)]
    pub tr: bool,
}

pub struct NamesInARow;

impl Prop for NamesInARow {
    type Case = NamesRow;
    fn name(&self) -> &'static str {
        "duration-names-in-a-row"
    }
    fn check(&self, w: &mut Worker, c: &NamesRow) -> Verdict {
        const NAMES: [&str; 7] = ["leg one", "stop", "leg two", "wait", "return trip", "detour", "layover"];
        let cfg = Cfg::default();
        let lang = if c.tr { "tr" } else { "en" };
        let words = |g: &Vec<Part>| -> String { g.iter().flat_map(|p| p.toks(lang)).map(|t| t.text(",", ".")).collect::<Vec<_>>().join(" ") };
        let mut lines: Vec<String> = c.groups.iter().enumerate().map(|(i, g)| format!("{} = {}", NAMES[i % 7], words(g))).collect();
        let mut last = (0..c.groups.len()).map(|i| NAMES[i % 7]).collect::<Vec<_>>().join(" ");
        let mut exp: i64 = c.groups.iter().flatten().map(|p| p.seconds()).sum();
        if let (Some((conn, unit)), false) = (c.conv, c.tr) {
            last.push_str(&format!(" {} {}", CONV_WORDS[conn as usize % 4], spellings("en", unit)[0]));
            exp = floor_to(exp, unit);
        }
        lines.push(last);
        let text = lines.join("\n");
        let rendered = format!("[{}] {}", lang, text.replace('\n', " ; "));
        let out = match w.eval(&cfg, lang, &text) {
            Ok(o) => o,
            Err(p) => return Verdict::fail(format!("panic at {}: {}", p.site, p.message), rendered),
        };
        let mut acc = Acc::new();
        match out.slots.last() {
            Some(Slot::Ok { v: V::Dur(secs, 0), .. }) if *secs == exp => {}
            other => {
                acc.fail(format!("expected Duration({} s) got {:?}", exp, other.map(|s| s.brief())))
            }
        }
        acc.finish(rendered).nt(true).class("duration-names-in-a-row").class_if(c.groups.len() % 2 == 1, "odd-number-of-names").class_if(c.conv.is_some() && !c.tr, "followed-by-a-conversion").class_if(c.tr, "lang:tr").class_if(c.groups.len() >= 6, "six-or-seven-names")
    }
}

pub fn namesrow_strategy() -> impl Strategy<Value = NamesRow> {
    let group = || prop::collection::vec((1u32..=400, 0u8..5), 1..=2).prop_map(|v| {
        let mut v: Vec<Part> = v.into_iter().map(|(count, unit)| Part { count, unit, spelling: 0, group: false }).collect();
        v.sort_by(|a, b| b.unit.cmp(&a.unit));
        v.dedup_by_key(|p| p.unit);
        v
    });
    (prop::collection::vec(group(), 2..=7), prop::option::weighted(0.6, (0u8..4, 0u8..5)), prop::bool::weighted(0.3)).prop_map(|(groups, conv, tr)| NamesRow { groups, conv, tr })
}

pub fn run(ctx: &Ctx) {
    ctx.rule("generated: 1-3 groups of 1-4 juxtaposed '(count unit)' parts (<= 7 parts), groups joined by + or -, counts 0..10^6 biased to carry boundaries (59/60/61, 23/24/25, 6/7/8, 29/30/31, 364/365/366, 11/12/13), every unit spelling of en and tr, optional 'as|to|in|into seconds|minutes|hours|days|weeks' (en); exhaustive table unit x spelling x boundary count x target; the first part - or only its count - also held in a name bound on an earlier line; a fifth of the cases under a random number format (the counts of a printed duration are whole numbers whatever it says); two to seven names bound to durations written side by side (en and tr), optionally followed by 'as unit'; several conversions on one line ('G1 as u1 +- G2 as u2', 'G as u1 as u2', sources also held in names: every conversion floors the duration it stands next to); oracle: hard-coded unit lengths (60, 3600, 86400, 7 d, 30 d, 365 d, N months = 365*(N div 12)+30*(N mod 12) days), exact integer seconds; printed form parsed back with the language's own words: singular iff count = 1, strictly descending units, parts sum to the magnitude and equal the greedy decomposition; 'as' = floor(|D|/len)*len; non-trivial = >= 2 parts of different units, or a carry-boundary count, or an inexact 'as' quotient");
    ctx.assume("a zero duration prints the empty string (the sum of no parts); negative results print their magnitude; 'as months|years' is outside the statement");
    ctx.run_table(&Durations, "boundary-grid", table(), true);
    ctx.run_generated(&Durations, ctx.tier.pick(150_000, 1_500_000), case_strategy);
    // several conversions on one line: each floors the duration it stands next to
    ctx.run_generated(&Conversions, ctx.tier.pick(15_000, 150_000), twoconv_strategy);
    ctx.run_generated(&NamesInARow, ctx.tier.pick(10_000, 100_000), namesrow_strategy);
}

pub fn replay(w: &mut Worker, sub: &str, case: &serde_json::Value) -> Option<Verdict> {
    match sub {
        "durations" => crate::engine::replay_case(&Durations, w, case),
        "several-conversions" => crate::engine::replay_case(&Conversions, w, case),
        "duration-names-in-a-row" => crate::engine::replay_case(&NamesInARow, w, case),
        _ => None,
    }
}
