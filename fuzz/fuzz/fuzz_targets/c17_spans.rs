#![no_main]
// C17 (highlight tokens are well-formed character spans) under coverage guidance; oracle =
// vlib::c17::Spans (validity predicate on every line's ui_tokens).
use libfuzzer_sys::fuzz_target;
fuzz_target!(|data: &[u8]| {
    vlib::fuzzdec::fuzz_one("C17", data);
});
