#![no_main]
// C01 (totality) under coverage guidance: the oracle is vlib::c01::check_text, the same function
// the proptest tier calls. A violation panics outside the guarded region, which libFuzzer saves.
use libfuzzer_sys::fuzz_target;
fuzz_target!(|data: &[u8]| {
    vlib::fuzzdec::fuzz_one("C01", data);
});
