// placeholder: cargo-fuzz needs a parent crate
