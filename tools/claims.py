NOT_APPLICABLE = {}
CLAIMED["C02"] = (
 "property-based testing: generated expression trees vs. a reference evaluator (proptest, shrinking); exhaustive small-tree table",
 "Generated-input search: expression trees (literals, + - * /, parentheses, sign prefixes, juxtaposition, k..Y suffixes, spacing, 4 separator conventions, assignment form) rendered to text, evaluated by the real library and compared with a reference evaluator over the tree; all trees with <= 3 operators over {2,3,5,7} enumerated exhaustively. Evidence counts distinguishing cases (those on which a wrong precedence/associativity/parenthesis reading gives a different value). It shows absence of violations on what was generated, not for all inputs.",
 "Trusted: the harness's reference evaluator and renderer (cross-checked against each other on every case by an independent token-level parser), f64 semantics of the host, tolerance 1e-9 relative. Quotient chains that read as a valid date are excluded by design.",
 "DESIGN.md section 5, C02")
