NOT_APPLICABLE = {}
CLAIMED["C02"] = (
 "property-based testing: generated expression trees vs. a reference evaluator (proptest, shrinking); exhaustive small-tree table",
 "Generated-input search: expression trees (literals, + - * /, parentheses, sign prefixes, juxtaposition, k..Y suffixes, spacing, 4 separator conventions, assignment form) rendered to text, evaluated by the real library and compared with a reference evaluator over the tree; all trees with <= 3 operators over {2,3,5,7} enumerated exhaustively. Evidence counts distinguishing cases (those on which a wrong precedence/associativity/parenthesis reading gives a different value). It shows absence of violations on what was generated, not for all inputs.",
 "Trusted: the harness's reference evaluator and renderer (cross-checked against each other on every case by an independent token-level parser), f64 semantics of the host, tolerance 1e-9 relative. Quotient chains that read as a valid date are excluded by design.",
 "DESIGN.md section 5, C02")
_note_common = "Trusted: the harness's own generators, renderers and reference model for this property; host f64/libc; the clock where the property depends on the current date. Absence of violations is established only for the generated cases; known findings listed in known_findings.json are counted, not reported."
CLAIMED["C01"] = (
 "property-based testing / fuzzing of execute(): generated Unicode, token-soup and corpus texts x language tags x setter configurations; oracle = no panic (call-site attribution), watchdog termination, status, slot count, slot-vs-standalone differential",
 "Generated-input search over texts (arbitrary Unicode, token soup from a vocabulary derived from config.json and the grammar, boundary corpus), language tags (en, tr, unknown) and configurations reachable through the setters. Each evaluation runs under catch_unwind with the panic attributed to its smartcalc call site and under a 20 s watchdog (confirmed in a child process); status, the number of slots against an independent LF/CRLF splitter and the equality of every pre-assignment line with its standalone evaluation are checked.",
 _note_common + " Termination is a watchdog verdict, not a proof.", "DESIGN.md section 5, C01")
CLAIMED["C05"] = (
 "property-based testing: generated (X, A, B, p) x ten phrase shapes x money spellings vs. the textbook formulas; metamorphic p% == %p",
 "Generated-input search: numbers and money amounts in every rated currency and spelling, ten phrase shapes, both percent spellings, spaced/unspaced operators, four separator conventions; results compared in kind and value with the seven textbook formulas; the two percent spellings must agree exactly. A boundary panel is enumerated exhaustively.",
 _note_common, "DESIGN.md section 5, C05")
CLAIMED["C06"] = (
 "property-based testing with a rate-table reference model; exhaustive enumeration of all ordered pairs of rated currencies and of all literal spellings; stateful histories of update_currency",
 "All 161 currency codes as literals in every spelling, all 1024 ordered pairs of the 32 rated currencies (conversion, sum, ratio) enumerated exhaustively, plus generated amounts/spellings/connectives and arithmetic; call histories of update_currency (codes, aliases, symbols, unknown names) interleaved with evaluations on a fresh calculator, a fixed panel re-checked after every update against the model.",
 _note_common, "DESIGN.md section 5, C06")
CLAIMED["C07"] = (
 "property-based testing: value x format settings vs. an independent formatter built on the exact decimal expansion of the double; exhaustive boundary table",
 "Values injected exactly ([NUMBER:x]/[PERCENT:x] atoms, literals for money and units) under every digit count 0..9, both flags, seven separator pairs, all 161 currencies and 69 unit spellings; the printed string must equal one of the correctly rounded renderings computed from the exact decimal expansion (an exact binary tie accepts either neighbour). A table of rounding and grouping boundaries (+-1 ulp) is enumerated exhaustively.",
 _note_common, "DESIGN.md section 5, C07")
CLAIMED["C09"] = (
 "property-based testing vs. an independent proleptic-Gregorian calendar model; exhaustive month-arithmetic grid; known-finding signatures modelled exactly",
 "Dates of years 1..9999 in every spelling, letter case and language, impossible dates, +- days/weeks/months/years, differences in both orders, today/tomorrow/yesterday; expected values from an independent days-from-civil calendar; printed month word and year elision checked. A grid 12 months x N 0..36 x +- x three days of month and every month name of both languages are enumerated.",
 _note_common + " Known findings F80/F81/F82 are recognised by comparing the observed result with an exact model of the defective algorithm, so any other wrong date is still reported.", "DESIGN.md section 5, C09")
CLAIMED["C10"] = (
 "property-based testing vs. hard-coded unit lengths; printed form parsed back and compared with the greedy decomposition; exhaustive boundary grid",
 "1-3 groups of juxtaposed (count unit) parts joined by + or -, counts biased to carry boundaries, all spellings of en and tr, 'as|to|in|into' five target units; exact integer seconds from a hard-coded length table; the printed string is parsed with the language's words and must be the greedy decomposition with correct singular/plural.",
 _note_common, "DESIGN.md section 5, C10")
CLAIMED["C11"] = (
 "property-based testing vs. the zone table; exhaustive enumeration of all ordered zone pairs; metamorphic round trip and default-zone independence; stateful set_timezone sequences",
 "Times in 24-hour and am/pm forms with every usable zone abbreviation and GMT offset form, conversions, Z1->Z2->Z1 chains, +- durations (incl. negative-literal durations), differences, default zones set through set_timezone; the shown time is read from the AST (instant + offset) and from the printed string. All ordered pairs of zones are enumerated at fixed wall times; set_timezone call sequences are checked against a strict parser incl. rejected strings leaving the zone unchanged.",
 _note_common, "DESIGN.md section 5, C11")
CLAIMED["C12"] = (
 "property-based testing vs. a hard-coded SI table; exhaustive enumeration of all ordered unit pairs; metamorphic linearity, transitivity and inverse relations",
 "All 33 x 33 ordered unit pairs (incl. cross-kind pairs, which must not convert) x amounts x separator conventions enumerated; every configured unit name checked against a by-name definition table; generated conversions, chains, sums, scalings and ratios; linearity, transitivity and inverse are checked on the real code.",
 _note_common, "DESIGN.md section 5, C12")
CLAIMED["C13"] = (
 "property-based testing with an independent radix formatter/parser; print -> read round trip; exhaustive boundary table",
 "Integers 0..2^53 (powers of two +-1, 2^31, 2^32, random) as literals in four bases and letter cases, conversions to five target words with and without 'to', fractional sources, arithmetic; printed prefix/digits compared with an independent formatter and the printed literal is typed back in.",
 _note_common, "DESIGN.md section 5, C13")
CLAIMED["C14"] = (
 "property-based testing vs. independent civil-from-days arithmetic; round trips timestamp -> date-time -> timestamp; metamorphic time-as-unix",
 "Timestamps of years 1..9999 incl. negative and >= 2^31 to date / to zone, dates in every spelling as unix, times and date-time variables as unix, the three inverse forms, under default and explicit zones; printed fields recomputed independently from the instant and the offset, printed timestamps compared digit for digit.",
 _note_common, "DESIGN.md section 5, C14")
CLAIMED["C03"] = (
 "model-based property testing of generated straight-line programs: environment model + substitution oracle; differential between a multi-line text and a re-used Session",
 "Generated programs of up to 14 statements over six one-/two-/three-word names (word-prefixes of each other) in random letter case: assignments of literals of seven kinds, copies, self-referential arithmetic, uses in arithmetic and in conversion / percentage / date / zone / unit / duration / unix / base sentences, broken assignments and garbage lines. An environment model stores the value observed at each binding; every line must evaluate exactly like the same line with each name replaced by a literal spelling of that value on a variable-free session; the program is also replayed line by line through one re-used Session.",
 _note_common + " The substitution is applied only where a literal stays one operand (documented in DESIGN.md).", "DESIGN.md section 5, C03")
CLAIMED["C04"] = (
 "stateful property testing: calculator histories (long-lived vs freshly built calculator differential) and session histories (set_text/execute_session vs one-shot execute of the concatenated history)",
 "A freshly built long-lived calculator evaluates up to 30 generated texts (all generators plus token soup) and then a probe; status, every slot, every AST value and the highlight tokens of the probe must equal those of a fresh calculator that only evaluates the probe. Histories of set_text + execute_session over 1-3 sessions sharing one calculator: status, slot count and slots must equal the tail of a one-shot execute of everything that session has executed.",
 _note_common, "DESIGN.md section 5, C04")
CLAIMED["C08"] = (
 "metamorphic property testing: the same token-list line rendered for and evaluated under two separator conventions must give bit-identical AST values; reader check of every literal",
 "Lines and two-line variable programs from the generators of C02, C03, C05, C06, C09-C14, kept as token lists with tagged numeric literals, evaluated under all ordered pairs of the four reading conventions; AST values must be bit-identical and every plain literal alone must denote the generator's number.",
 _note_common, "DESIGN.md section 5, C08")
CLAIMED["C15"] = (
 "round-trip property testing: print -> type back -> print must be the identity on strings",
 "Producer lines for every kind in the statement (numbers, percentages, money in the currencies with a symbol/alias, durations, times with zone, dates, unit quantities, based integers) under four separator conventions, digits 0..4, all flag settings and both languages; the printed result typed back in on the same calculator must print the same string.",
 _note_common, "DESIGN.md section 5, C15")
CLAIMED["C16"] = (
 "metamorphic property testing: inserting blanks, appending comments and re-casing keywords must not change any AST value; blank/comment-only lines give an empty slot",
 "Base lines from all generators as token lists; 0-5 extra blanks per gap and at both ends, comments drawn from printable Unicode and from the smartcalc vocabulary of both languages, letter-case patterns on currency codes/aliases, month names, zone names, connectives and variable names; exact equality of every line's AST value with the base text.",
 _note_common, "DESIGN.md section 5, C16")
CLAIMED["C17"] = (
 "property-based testing / fuzzing with a validity predicate over ui_tokens plus generator-known exact spans for numbers, operators and comments",
 "Generated lines with multi-byte words (2-, 3-, 4-byte characters, combining marks, characters whose case mapping changes length) inserted before, between and after tokens, plus free token soup: every line's tokens must satisfy 0 <= start < end <= character count, be ordered and not overlap; every generated plain number literal, operator and comment must be reported with its own kind and exactly its character span.",
 _note_common, "DESIGN.md section 5, C17")
CLAIMED["C18"] = (
 "stateful model-based property testing of the registration API: generated call histories, return-value model, behaviour model, long-lived vs fresh-with-survivors differential",
 "Histories of add_rule / delete_rule / add_dynamic_type / add_dynamic_type_item interleaved with probe evaluations; return values against a model, effect of matching / declining / deleted rules with fields bound by name, family conversions against the product of declared link factors, and after every deletion and at the end a panel of probe lines compared between the long-lived calculator and a fresh one that replays only the surviving registrations.",
 _note_common + " Rule objects are the harness's own RuleTrait implementations; patterns respect the API's contract (>= 2 tokens, fresh keywords).", "DESIGN.md section 5, C18")
CLAIMED["C19"] = (
 "metamorphic property testing: a language-neutral case rendered with each language's words must evaluate to the same value; printed dates/durations parsed back with the language's own word lists",
 "Operator words, duration words, day keywords, month names (every configured spelling, exhaustive table), date arithmetic and differences rendered per language from config.json tables keyed by operator / constant id / month number, and word-free lines (arithmetic, percentages, money, variables) evaluated unchanged in every configured language; values must be exactly equal and outputs must use the language's own words.",
 _note_common, "DESIGN.md section 5, C19")

# ---- additions made after the first build (see DESIGN.md sections 8 and 9): (technique suffix, text suffix) ----
ADDENDA = {
 "C01": ("; families: Unicode, token soup, mutated valid lines, failing-assignment scripts, long repetitive lines; thorough tier adds a libFuzzer campaign (cargo-fuzz target c01_total, dictionary from the vocabulary) behind the same oracle",
         " Two further families: mutated valid lines of every other generator (token deleted / duplicated / swapped / glued, numbers replaced by extremes), scripts of assignments that fail at parse or evaluation time followed by uses, and long repetitive lines of several hundred tokens. The thorough tier adds a 10-minute libFuzzer campaign on the same oracle; a case that kills the process (stack overflow) is found by the supervisor through the per-thread case journal."),
 "C03": ("; names incl. non-ASCII letters", " Eight names, two with non-ASCII letters; the first binding is written in a random letter case too."),
 "C04": ("; related histories (variants of the probe, also under the other language); repeated set_text of an equal text; second session reference without the failed lines",
         " Related histories: the texts before the probe are variants of the probe itself (same sentence, operands 0, 1, 0.5, 1e9 ..., also evaluated under the other language). Session histories also set an equal text again, and are compared with a second reference: the same history without the lines that failed to evaluate."),
 "C05": ("; metamorphic: operands held in variables", " Two cases in five are evaluated again with X and/or p held in variables bound on earlier lines; the result must be exactly the same."),
 "C06": ("", " Histories also update currencies without a shipped rate (aed, cad) and convert with them afterwards."),
 "C08": ("; the same pair on ONE calculator re-configured through the setters", " Every pair is also evaluated on one calculator that is re-configured through the setters between the evaluations, each text being read once under the other convention in between."),
 "C09": ("; default zones and separator conventions as extra dimensions", " A third of the cases run under a non-UTC default zone, a quarter under another separator convention; month names of the shipped languages are a fixed table of the harness."),
 "C10": ("", " 'as' conversions are generated for sequences of up to seven parts."),
 "C11": ("", " Durations range from seconds to millennia (beyond 2^32 seconds)."),
 "C13": ("; glued operators; conversion of a variable computed from a based literal", " Operators are also written without blanks; a value computed from a based literal and held in a variable is converted like any other N."),
 "C14": ("; day-independent relations for 'T as unix'", " 'T as unix' is additionally checked by two relations that do not depend on which calendar day today is: seconds since '0:00 as unix' in the same zone = T's wall-clock seconds, and a bare time under default zone Z = the same time written with Z."),
 "C15": ("; user-defined unit families", " Unit quantities of user-defined families registered with the built-in print/parse convention (also with non-ASCII letters and with the unit word first) are included."),
 "C16": ("", " Variables that are bound, re-bound and used with each occurrence cased independently, and every zone key of the table as configured (also the ones the zone syntax cannot express), are included."),
 "C17": ("; thorough tier adds a libFuzzer campaign (target c17_spans); user-defined unit families", " In free text the first '#' of a line starts one Comment token reaching the end of the line; lines with unit quantities of user-defined families (unit word after or before the value) are checked for the exact Number span. The thorough tier adds a 10-minute libFuzzer campaign on the same predicate."),
 "C18": ("", " Families start at index 0, 1 or 3; rule patterns also use operator words of the rule's own language (times/minus, kere/eksi)."),
 "C19": ("; fixed operator-word and month-name tables for the shipped languages; one session switched between languages", " The word tables of en and tr are constants of the harness (a configuration mapping a word to the wrong operator is not believed); ASCII operator words are also written in upper case / capitalised; every case is also run through one session object switched en -> tr -> en."),
}
for _k, (_t, _x) in ADDENDA.items():
    _a = CLAIMED[_k]
    CLAIMED[_k] = (_a[0] + _t, _a[1] + _x, _a[2], _a[3])

# additions after the third and fourth wave of seeded changes (DESIGN.md 9.1)
ADDENDA2 = {
 "C02": " A seventh of the trees are evaluated under the language tag tr; trees are also wrapped 10-160 parentheses deep; quotient chains d / m / y whose reading as a date is impossible stay quotients.",
 "C03": " A second sub-check runs free-form scripts: removing any ONE failing line leaves every other line's result unchanged. Names also include words spelled like a month or a zone (may, west) and one with an operator character (tax-rate).",
 "C04": " Sessions are built with Session::new() or Session::default(); calculator histories are re-configured through the setters in between.",
 "C05": " The order of the two separator setters is a dimension of the configuration; a second sub-check sums 2-12 phrases on one line; 'A is what % of B' also with exactly one money operand.",
 "C06": " Histories also nudge the current rate by a few parts per million.",
 "C07": " Separators of several characters; a sub-check registers unit families with every combination of the per-unit format options.",
 "C08": " The setter order is a dimension; user-defined unit families whose conversion codes hold fractional constants are registered before or after the separator setters and converted under all four conventions.",
 "C09": " The sign may be glued to the count for short spans; an operand is also held in a name bound on an earlier line (the line must give the literal line's value); 29 February of century years.",
 "C10": " The first part may be held in a variable.",
 "C12": " Amounts may be glued to the unit; a second sub-check converts a sum ('a U1 +- b U2 to U3', b also held in a name).",
 "C13": " The number-format settings are a dimension.",
 "C14": " A date held in a variable 'as unix'; date-times whose time carries an explicit zone denote the same instant under every default zone.",
 "C15": " Default zones are given to set_timezone in upper, lower or mixed case.",
 "C16": " Variables spelled like zone abbreviations; the blank run inside a money literal is widened as well.",
 "C17": " Six separator conventions; a literal with glued punctuation has a Number token starting where it starts.",
 "C18": " Keyword-less always-declining rules; the built-in sentences are compared with a plain calculator; keywords registered in any letter case; rule fields over quantities of a user family, the rule registered before or after the family; units with two names in either order; every live pattern is probed for its effect at the end of each history; the fresh reference is also built families-first; two exhaustive tables.",
 "C19": " Programs over names of one and two words (names in a row, ranges between names, durations followed by a time range) must also equal the same line written without the names.",
}
for _k, _x in ADDENDA2.items():
    _a = CLAIMED[_k]
    CLAIMED[_k] = (_a[0], _a[1] + _x, _a[2], _a[3])

# additions after the fifth wave
ADDENDA3 = {'C02': ' Operands are also juxtaposed with parenthesised groups (2 (3) 4).', 'C03': ' Names are also re-bound to values that print like the old one.', 'C05': ' A fifth of the cases run under the language tag tr; money also in currencies without a shipped rate.', 'C06': " A second sub-check converts inside a sum ('m1 +- m2 in C3', m2 also held in a name); an operand is also held in a name (metamorphic step).", 'C07': " Unit options may be given partially; a third sub-check prints the COMPUTED results of every other generator's lines and compares them with the rule applied to the AST value.", 'C08': ' The printed forms of one value under two conventions differ in the separators only; each text is also read first under the other convention on the re-configured calculator.', 'C09': " The comma of 'Month day, year' may stand apart; only the count of a duration may be held in a name.", 'C10': ' Only the count of a part may be held in a name; a second sub-check puts several conversions on one line.', 'C11': ' A third sub-check takes differences between times of different zones (one side explicit) and of a time moved by a duration first; the time is also held in a name.', 'C12': ' A quantity is also held in a name (metamorphic step).', 'C13': ' Literals are also zero-padded (up to 70 digits); N may be a percentage phrase over a based literal.', 'C16': ' Programs with two names of which one is a word-prefix of the other; a definition as the last line; a comment glued to the last token.', 'C17': ' Sub-checks: a based literal with anything before and after it is one Number token; an operator character inside the pattern of a registered rule stays an Operator token.', 'C18': ' delete_rule is also called with the function names of built-in rules; family names carry capitals.', 'C19': ' A date directly followed by a written duration (no operator) is compared across the languages.'}
for _k, _x in ADDENDA3.items():
    _a = CLAIMED[_k]
    CLAIMED[_k] = (_a[0], _a[1] + _x, _a[2], _a[3])

# additions after the sixth wave
ADDENDA4 = {'C01': ' Script names include names with digits and operator characters.', 'C02': ' Values are compared relatively (or against the propagated rounding-error bound), never with an absolute epsilon; quotient chains run into the subnormal range.', 'C03': " Names with digits (q1, item 2); '<date> at <name>'.", 'C04': " A fifth of the session histories switch the session's language between the texts.", 'C10': ' A fifth of the cases run under a random number format; a third sub-check writes two to five names bound to durations side by side.', 'C14': ' One case in sixteen with a default zone is repeated after a rejected set_timezone call.', 'C18': " Tables: units named like magnitude suffixes; a rule result typed in a base and converted on the same line; histories also call set_date_rule with a language's own patterns."}
for _k, _x in ADDENDA4.items():
    _a = CLAIMED[_k]
    CLAIMED[_k] = (_a[0], _a[1] + _x, _a[2], _a[3])

# additions after the seventh wave
ADDENDA5 = {'C03': ' A signed name may be followed by more (-x + 1); a tenth of the programs run under a language tag without a configuration.', 'C05': ' X may be a 0x / 0o / 0b literal in the of / on / off phrases.', 'C10': ' Names in a row: two to seven, en and tr.', 'C12': ' Only the amount may be held in a name.', 'C15': ' Based integers whose hexadecimal digits spell a currency code are produced on purpose.', 'C16': ' Lines with a connective directly after a number are re-cased too.', 'C18': ' Tables: a number literal inside a pattern; upgrade codes with a constant offset and zero amounts in the histories.', 'C19': ' The two shipped languages must print the long month name without the year and the short one with it, in their own spelling.', 'C09': ' Printed month names are checked exactly for the two shipped languages.'}
for _k, _x in ADDENDA5.items():
    _a = CLAIMED[_k]
    CLAIMED[_k] = (_a[0], _a[1] + _x, _a[2], _a[3])

# additions after the eighth wave
ADDENDA6 = {'C02': ' A sixth of the trees run under a random number format (the value must not change).', 'C03': ' Plain words may stand in front of a number-valued name (big house + big rent).', 'C05': ' A third of the phrase sums hold every X in a name of its own.', 'C13': ' Another operand may stand in front of N without an operator.', 'C14': " The one-line form 'd at T as unix' (date held in a name) must agree with the two-step form.", 'C18': ' A third of the downgrade codes mention the placeholder twice.', 'C19': ' An amount per unit word inside arithmetic (25/hour * 14) is compared across the languages.'}
for _k, _x in ADDENDA6.items():
    _a = CLAIMED[_k]
    CLAIMED[_k] = (_a[0], _a[1] + _x, _a[2], _a[3])
ADDENDA7 = {'C01': " Script names may be bound to date-times and be followed directly by a zone word.", 'C10': " Lines whose subtracted runs have one part each are also read with every '-' written directly in front of the count.", 'C14': " Clock times in 'D at T [Z]' carry seconds.", 'C17': " Rule patterns also use {PERCENT} and {MONEY} fields matched by sign-first and k/M-suffixed literals."}
for _k, _x in ADDENDA7.items():
    _a = CLAIMED[_k]
    CLAIMED[_k] = (_a[0], _a[1] + _x, _a[2], _a[3])
