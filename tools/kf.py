#!/usr/bin/env python3
"""Maintains /verif/known_findings.json from the entries below (edit here, then run).
The file is read-only at check time."""
import json, sys

def L(v, sign=0, suffix=None):
    return {"Lit": {"mant": float(v), "suffix": suffix, "sign": sign, "group": False}}
def B(op, l, r, j=False):
    return {"Bin": [op, j, l, r]}
def P(e): return {"Paren": e}
def S(neg, e): return {"Sign": [neg, e]}
def c02(e, spaces=None):
    return {"sub": "arith", "case": {"e": e, "spaces": spaces or [], "seps": 0, "assign": None}}

F = []
def add(id, prop, status, what, witness, signature="", commit=None):
    F.append({"id": id, "property": prop, "status": status, "signature": signature, "what": what, "witness": witness, "commit": commit})

# ---- C02 -------------------------------------------------------------------------------------
add("F20", "C02", "fixed", "'3 * - 5 + 2' evaluated to -15: a detached sign prefix did not consume its operand and the rest of the line was dropped",
    c02(B("Add", B("Mul", L(3), S(True, L(5))), L(2)), [0,1,1,1,1,1,1]), commit="eb80c24")
add("F21", "C02", "fixed", "'(((5)))' failed with 'Parentheses not closed': a 0 was inserted in front of the third opening parenthesis",
    c02(P(P(P(L(5))))), commit="4d654bd")
add("F23", "C02", "fixed", "'1 2 + (3)' evaluated to 1 and '2+3*(5+7)' to 2: no implicit '+' was inserted left of the first parenthesis",
    c02(B("Add", B("Mul", L(2), L(3)), P(B("Add", L(5), L(7))))), commit="4d654bd")
add("F25", "C02", "fixed", "'(1)-2' evaluated to 1: a signed literal after a closed group got no operator and was dropped",
    c02(B("Sub", P(L(1)), L(2))), commit="4d654bd")
add("F22", "C02", "fixed", "'2 * -(3)' failed with 'Unary works with number': no sign prefix on a group",
    c02(B("Mul", L(2), S(True, P(L(3))))), commit="706ecf2")
add("F24", "C02", "fixed", "'1M' evaluated to 1000000 Meter and '1k + 1M' was an error: the magnitude suffix was tokenised a second time as a unit name",
    c02(B("Add", L(1, suffix="k"), L(1, suffix="M"))), commit="fad0874")

# ---- C01 (panic sites; all repaired) ---------------------------------------------------------
def c01(text, lang="en", cfg=None):
    return {"sub": "total", "case": {"cfg": cfg or {}, "lang": lang, "text": text, "family": "corpus"}}
add("F01", "C01", "fixed", "atoms with a malformed payload ([NUMBER:x], [MONEY:5], [TIME:99999]) panicked in get_atom", c01("[NUMBER:x]\n[PERCENT:x]\n[MONEY:5]\n[MONEY:x;usd]\n[TIME:99999]\n[TIME:abc]"), commit="21e9c5a")
add("F02", "C01", "fixed", "0x/0b/0o literals of more than 63 bits panicked on from_str_radix(..).unwrap()", c01("0xFFFFFFFFFFFFFFFFFF"), commit="f97d99a")
add("F03", "C01", "fixed", "'1.2.3%' panicked on parse::<f64>().unwrap() in the percent lexer", c01("1.2.3%"), commit="f90646d")
add("F04", "C01", "fixed", "an unknown language tag panicked on constant_pair/alias/word_group .get(lang).unwrap()", c01("1 day to {GROUP:g}", lang="xx"), commit="46cc38e")
add("F05", "C01", "fixed", "date +/- months or years panicked in NaiveDate::from_ymd (month 0, missing day)", c01("15 nov 2021 + 1 month\n31 jan 2021 + 1 month\n29 feb 2020 + 1 year\n15 mar 2021 - 3 months"), commit="f248311")
add("F06", "C01", "fixed", "'1/1/2040 at 24' panicked in NaiveTime::from_hms", c01("1/1/2040 at 24\n1/1/2040 at 11:30 as unix"), commit="046a5b1")
add("F07", "C01", "fixed", "over-long durations overflowed (multiply with overflow, TimeDelta out of bounds)", c01("99999999999999999999 days\n9999999999999 years\n999999999999 weeks"), commit="7b373ba")
add("F08", "C01", "fixed", "'99999999999999 to date' panicked in NaiveDateTime::from_timestamp", c01("99999999999999 to date"), commit="938ff6a")
add("F09", "C01", "fixed", "10 or more decimal digits panicked on 10_u32.pow(digits) in format_number", c01("1,5", cfg={"num": [10, True, True]}), commit="b83d037")
add("F13", "C01", "fixed", "date-time +/- a duration leaving the supported range panicked inside chrono", c01("-62135596801 to date - 300000 years"), commit="7953af7")

# ---- C06 -------------------------------------------------------------------------------------
def mlit(v, cur, spelling, suffix=None, sign=0):
    return {"amount": {"v": float(v), "sign": sign, "group": False}, "suffix": suffix, "cur": cur, "spelling": spelling}
add("F50", "C06", "fixed", "the configured Cyrillic alias 'лв' could never match the money patterns ([a-zA-Z]{2,}): '10 лв' was the number 10",
    {"sub": "money", "case": {"shape": {"Literal": mlit(10, "bgn", {"AliasAfter": ["лв", 1, 0, 0]})}, "seps": 0}}, commit="a22987f")
add("F51", "C06", "open", "a money literal '<amount><k|M> <symbol>' ends before its currency: '1M $ to pln' stays $1,000,000 and '1M $ * 2' drops '* 2'; '1,5k wst' is an error (pinned by test convert_money_6, which fixes the token count of '2M eur')",
    {"sub": "money", "case": {"shape": {"Convert": [mlit(1, "usd", {"SymAfter": 1}, suffix="M"), 1, "pln", 0, 0]}, "seps": 0}},
    signature="first money literal has a magnitude suffix and its symbol after a blank (or a code that is also a zone name) AND the result is exactly that first literal (rest of line dropped) / Err(No more token)")

add("F51", "C05", "open", "a money literal '<amount><k|M> <symbol>' ends before its currency, so '1k $ - 10%' stays $1,000 (see C06; pinned by test convert_money_6)",
    {"sub": "percent", "case": {"phrase": "Minus", "x": {"Money": mlit(1, "usd", {"SymAfter": 1}, suffix="k")}, "b": {"Plain": {"v": 1.0, "sign": 0, "group": False}}, "p": {"p": {"v": 10.0, "sign": 0, "group": False}, "prefix": False}, "op_space": [1, 1], "seps": 0}},
    signature="X (or B) is a money literal with magnitude suffix and symbol after a blank AND the result is X alone / Err(No more token)")

# ---- C07 -------------------------------------------------------------------------------------
add("F60", "C07", "fixed", "format_number rounded three times independently: 0.995 printed '0', 99.995 printed '99.' with rounding off, 1e21 lost a digit, 5.001 printed '5' with rounding off",
    {"sub": "print", "case": {"bits": 4607137382803743703, "kind": "Number", "dec": ",", "thou": ".", "digits": 2, "remove_zero": True, "rounding": True}}, commit="b83d037")
add("F60b", "C07", "fixed", "with rounding disabled 99.995 printed '99.' (fraction digits taken from a different rounding than the integer part)",
    {"sub": "print", "case": {"bits": 4636736939510915400, "kind": "Number", "dec": ".", "thou": ",", "digits": 2, "remove_zero": True, "rounding": False}}, commit="b83d037")

# ---- C09 -------------------------------------------------------------------------------------
def dlit(y, m, d):
    return {"y": y, "m": m, "d": d, "spell": {"DMonY": [0, 0, 0]}}
def c09(shape, lang="en"):
    return {"sub": "dates", "case": {"lang": lang, "shape": shape}}
add("F05b", "C09", "fixed", "'15 nov 2021 + 1 month' computed month 0 and panicked; December results were unreachable",
    c09({"Arith": [dlit(2021, 11, 15), True, 1, "Months", 1, None]}), commit="f248311")
add("F80", "C09", "open", "subtracting months across a year boundary does not borrow the year: '15 mar 2021 - 4 months' is 15 Nov 2021 (and '- 3 months' is an error); pinned by tests execute_21..23",
    c09({"Arith": [dlit(2021, 3, 15), False, 4, "Months", 1, None]}),
    signature="D - N months with (N mod 12) >= month(D) AND the result equals the library's decompose-into-365/30-day algorithm without year borrow (or its error)")
add("F81", "C09", "open", "a day/week count of 30 days or more is applied as calendar years/months plus a remainder: '15 jan 2021 + 45 days' is 2 Mar 2021 (a Duration does not remember its unit; pinned by test execute_26)",
    c09({"Arith": [dlit(2021, 1, 15), True, 45, "Days", 1, None]}),
    signature="D +- N days|weeks with N*len >= 30 days AND the result equals the decompose-into-365/30-day algorithm (or its error)")
add("F82", "C09", "open", "years are applied before months through an intermediate date: '29 feb 2020 + 14 months' is an error although 29 Apr 2021 exists",
    c09({"Arith": [dlit(2020, 2, 29), True, 14, "Months", 1, None]}),
    signature="start is 29 Feb, N >= 12 months, Err(Unknown calculation) where the intermediate year is not a leap year")
add("F140", "C09", "fixed", "only one long and one short month name per language survived config loading: '12 subat 2020' (tr) evaluated to 2032",
    c09({"Literal": {"y": 2020, "m": 2, "d": 12, "spell": {"DMonY": [1, 0, 0]}}}, lang="tr"), commit="c2bb967")

add("F160", "C09", "fixed", "'May 31, 1926' was 'No more token' under '.' decimals without a thousands separator: the comma after the day stayed inside the number literal and made it unparsable (it only parsed under the other conventions by accident)",
    {"sub": "dates", "case": {"lang": "en", "shape": {"Literal": {"y": 1926, "m": 5, "d": 31, "spell": {"MonDY": [0, 0, 0, True]}}}, "tz": None, "seps": 2}}, commit="4441755")

# ---- C11 -------------------------------------------------------------------------------------
def tlit(h, m, s=None, form=0):
    return {"h": h, "m": m, "s": s, "form": form, "mcase": 0}
def c11(shape, default_tz=None):
    return {"sub": "times", "case": {"shape": shape, "default_tz": default_tz, "zcase": 0, "zbits": 0}}
add("F150", "C11", "fixed", "'10:30 - -2 hours' evaluated to 08:30: a negative duration was always subtracted from a time whatever the operator",
    c11({"Arith": [tlit(10, 30), None, False, {"parts": [[2, 2]], "negative": True}]}), commit="a4a6767")
add("F151", "C11", "open", "'10:30 EST to 12:45 EST' is an error: the difference rule fires in the same sweep in which the first zone is attached, before the second zone is attached to its time, and the orphan zone makes the line unparsable (rule firing order of the rewriting loop; no small safe repair)",
    c11({"DiffZoned": [tlit(10, 30), tlit(12, 45), {"Abbr": "EST"}]}),
    signature="T1 Z to T2 Z with the same explicit zone AND Err(No more token)")

add("F152", "C10", "fixed", "'a b c as hours' with three names bound to durations converted only the LAST name (26 hours + 108 seconds + floor(76 minutes) instead of the floored sum; two names, four names and literal parts were right): the conversion rule is tried before the combining rule and matched the last duration alone",
    {"sub": "duration-names-in-a-row", "case": {"groups": [[{"count": 26, "unit": 2, "spelling": 0, "group": False}], [{"count": 108, "unit": 0, "spelling": 0, "group": False}], [{"count": 76, "unit": 1, "spelling": 0, "group": False}]], "conv": [0, 2], "tr": False}}, commit="cf09ca9")

# ---- C12 -------------------------------------------------------------------------------------
def u(i, n=0): return {"unit": i, "name": n}
def nl(v): return {"v": float(v), "sign": 0, "group": False}
def c12(shape, seps=0): return {"sub": "units", "case": {"shape": shape, "seps": seps}}
# unit indices follow config.json order: metric-length 0..6, metric-weight 7..14, memory 15..24, imperial length 25..29, imperial weight 30..32
add("F70", "C12", "fixed", "unit conversion formulas were read with the user's separators: under the default configuration '1 inch to mm' was 254 and '1 km to mile' 6.2e14",
    c12({"Convert": [nl(1), u(25), 0, u(0)]}), commit="103ff5e")
add("F90", "C12", "fixed", "'1 kg to hg' was 1000 (downgrade factor of Kilogram)", c12({"Convert": [nl(1), u(13), 0, u(12)]}), commit="a5f2c82")
add("F91", "C12", "fixed", "'1 byte to bit' was 1024 (downgrade factor of byte)", c12({"Convert": [nl(1), u(16), 0, u(15)]}), commit="3266819")
add("F92", "C12", "fixed", "'1 inch to kg' gave a weight: after the metric/imperial bridge the target was searched in every family", c12({"Convert": [nl(1), u(25), 0, u(13)]}), commit="0bae245")

# ---- C13 / C14 -------------------------------------------------------------------------------
def src(n, base=10): return {"n": n, "base": base, "frac": None, "prefix_upper": False, "digit_case": 0}
add("F100", "C13", "fixed", "'2147483648 to hex' printed 0x7FFFFFFF: based numbers were printed through 'as i32'",
    {"sub": "based", "case": {"shape": {"Convert": [src(2147483648), True, 0]}}}, commit="cd1480b")
add("F101", "C13", "fixed", "'0xAF00' was 0 XAF followed by 00: the money lexer claimed '<digit><currency letters>' inside hexadecimal literals",
    {"sub": "based", "case": {"shape": {"Literal": src(44800, 16)}}}, commit="882a73d")
add("F102", "C13", "fixed", "'5-0xAF' and '0x10+0xAF' were 'Unknown calculation': with a sign glued in front, the money lexer read '-0' + 'xaf' as minus zero XAF (the earlier repair looked at the position of the sign, not of the first digit)",
    {"sub": "based", "case": {"shape": {"Arith": [src(16, 16), 1, src(175, 16)]}, "glue": 3}}, commit="8cead20")
add("F100b", "C14", "fixed", "'1/1/2040 as unix' printed 2147483647: raw timestamps were printed through 'as i32'",
    {"sub": "unix", "case": {"shape": {"DateAsUnix": [{"y": 2040, "m": 1, "d": 1, "spell": {"Slash": [False, False]}}, 0, 0]}, "default_tz": None}}, commit="cd1480b")

# ---- C03 / C04 / C08 / C16 / C17 ---------------------------------------------------------------
def nm(i): return {"Name": [i, 0, 0]}
def lt(s): return {"Lit": s}
add("F32", "C03", "fixed", "'rent = 5' / 'big rent = 10 + 1 hour' (fails) / 'big rent * 2' was an error instead of 10: a first assignment that failed in the interpreter left a name without a value behind, which took precedence over 'rent'",
    {"sub": "failed-lines-leave-no-trace", "case": {"lines": ["rent = 5", "big rent = 10 + 1 hour", "big rent * 2"]}}, commit="ff023e3")
add("F30", "C03", "fixed", "'du = 90 seconds' / 'du as minutes' stayed 1 minute 30 seconds: as_duration ignored variable sources",
    {"sub": "programs", "case": {"stmts": [{"Assign": [3, 0, 0, {"One": lt("90 seconds")}]}, {"Use": {"Suffix": [nm(3), "as minutes"]}}]}}, commit="c8e7a0c")
add("F31", "C03", "fixed", "'rent = 10 usd' / '-rent' was an unknown calculation: a leading sign was evaluated as '0 - x', which only works for plain numbers",
    {"sub": "programs", "case": {"stmts": [{"Assign": [3, 0, 0, {"One": lt("10 usd")}]}, {"Use": {"Neg": nm(3)}}]}}, commit="52a3dc7")
add("F40", "C04", "fixed", "set_text did not reset the session cursor: a 1-line text after a 3-line text gave status=false and no slots",
    {"sub": "session-history", "case": {"sessions": 1, "ops": [[0, "x = 5\nx + 1\nx * 2"], [0, "x"]], "extra_execute": False}}, commit="a9cf95d")
def simple_line(toks, src="C02", lang="en"): return {"prelude": [], "line": {"toks": toks}, "lang": lang, "tz": None, "src": src}
def tnum(v, space=1): return {"pre": "", "num": {"v": float(v), "sign": 0, "group": False}, "post": "", "class": "Number", "space": space}
def tword(w, cls, space=1): return {"pre": w, "num": None, "post": "", "class": cls, "space": space}
add("F70b", "C08", "fixed", "'2,5 km to m' under ',' decimal gave 25000 but '2.5 km to m' under '.' decimal 2500: conversion formulas were read with the user's separators",
    {"sub": "separators", "case": {"g": simple_line([tnum(2.5, 0), tword("km", "Unit"), tword("to", "Conn"), tword("m", "Unit")], "C12"), "a": 0, "b": 1}}, commit="103ff5e")
add("F120", "C16", "fixed", "'5 # jan 2020' was the 5th of January: the month lexer ran before the comment lexer",
    {"sub": "noise", "case": {"g": simple_line([tnum(5, 0)]), "rw": {"extra": [], "comment": " jan 2020", "cases": []}}}, commit="46657ee")
def free(t): return {"sub": "spans", "case": {"input": {"Free": ["en", t]}}}
add("F130", "C17", "fixed", "'şğü 5' reported Number (4, 8) in a 5-character line: the end of a token at the end of the line was a byte offset", free("şğü 5"), commit="e281d10")
add("F131", "C17", "fixed", "'5 € + 3 €': the collision test compared byte offsets with character offsets, tokens after multi-byte characters were dropped or overlapped", free("5 € + 3 €"), commit="e281d10")
add("F132", "C17", "fixed", "'ŞŞŞ 12 may' reported Month (7, 13): month and zone lexers took offsets from a case-mapped copy of the line", free("ŞŞŞ 12 may\nİ İ 1 january 1\nıııı 15:00 EST"), commit="4cf889b")
add("F133", "C17", "fixed", "'0b1001%' reported Number(0,1) Symbol2(1,2) Number(2,6) Symbol2(6,7) and evaluated to 0: the percent lexer matched the digits inside a based literal (the literal is not one Number token)",
    {"sub": "based-literal-in-context", "case": {"lit": {"n": 9, "base": 2, "frac": None, "prefix_upper": False, "digit_case": 0, "pad": 0}, "before": 0, "after": 7, "gap": 0}}, commit="b5d2666")
add("F120b", "C17", "fixed", "'5 # jan 2020': overlapping Month and Comment tokens", free("5 # jan 2020"), commit="46657ee")

# ---- C15 -------------------------------------------------------------------------------------
def c15(text, cls, lang="en", src="C15"):
    return {"sub": "print-read-print", "case": {"g": {"prelude": [], "line": {"toks": [{"pre": text, "num": None, "post": "", "class": cls, "space": 0}]}, "lang": lang, "tz": None, "src": src},
            "seps": 0, "num": [2, True, True], "pct": [2, True, True], "money": [False, True]}}
add("F110", "C15", "open", "an amount in SEK prints with the symbol 'kr' ('10,00 kr'), which the reader resolves to DKK through the alias kr->dkk and prints as '10,00 kr.' (the symbol is ambiguous between SEK, NOK, DKK and ISK in the configuration; no safe repair)",
    c15("10 sek", "Money"), signature="the value is Money in SEK, out1 ends with ' kr' and out2 == out1 + '.'")
add("F111", "C15", "open", "a duration with 360-364 remaining days prints '12 months N days' (greedy decomposition, 12 x 30 days), which reads back as one year (365 days): '364 days' -> '12 months 4 days' -> '1 year 4 days'",
    c15("364 days", "Other"), signature="the value is a duration whose printed form contains '12 months' / '12 ay' and out2 != out1")
add("F112", "C15", "fixed", "Turkish could not read the time it prints: '10:30:00 UTC' was 'No more token' (no rule attaching a zone to a time in tr)", c15("10:30", "Time", lang="tr"), commit="2042dd2")
add("F113", "C15", "fixed", "'-0,004' printed '-0', which typed back in prints '0'",
    {"sub": "print-read-print", "case": {"g": {"prelude": [], "line": {"toks": [{"pre": "", "num": {"v": 0.004, "sign": 1, "group": False}, "post": "", "class": "Number", "space": 0}]}, "lang": "en", "tz": None, "src": "C07"},
            "seps": 0, "num": [2, True, True], "pct": [2, True, True], "money": [False, True]}}, commit="bb52307")
add("F50b", "C15", "fixed", "an amount in BGN prints '10,00 лв.', which could not be read back (the Cyrillic alias never matched)", c15("10 bgn", "Money"), commit="a22987f")

# ---- C18 / C19 -------------------------------------------------------------------------------
def pat(kw, layout=0): return {"kw": kw, "layout": layout, "n": "Number", "kw2": (kw + 1) % 8}
add("F04b", "C18", "fixed", "add_rule with an unknown language panicked instead of returning false",
    {"sub": "registry-history", "case": {"ops": [{"AddRule": [2, {"name": 0, "patterns": [pat(0)], "behaviour": {"Number": 5}}]}, {"DeleteRule": [2, 0]}]}}, commit="46cc38e")
add("F11", "C18", "fixed", "a user family whose lowest item has index 0 panicked with 'attempt to subtract with overflow' when converting down to it (contiguous indices from 1 are what the check asserts; the witness is a history with ordinary indices plus the no-panic differential)",
    {"sub": "registry-history", "case": {"ops": [{"AddType": 0}, {"AddItem": {"family": 0, "index": 1, "unit": 0, "down": 2, "up": 3}}, {"AddItem": {"family": 0, "index": 2, "unit": 1, "down": 3, "up": 4}}, {"ConvertProbe": [0, 1, 0, 5]}]}}, commit="9678768")
add("F92b", "C18", "fixed", "a user-defined family converted into built-in families through the metric/imperial bridge search ('3 zib to km')",
    {"sub": "registry-history", "case": {"ops": [{"AddType": 0}, {"AddItem": {"family": 0, "index": 1, "unit": 0, "down": 2, "up": 3}}, {"ConvertProbe": [0, 0, 0, 5]}]}}, commit="0bae245")
add("F140b", "C19", "fixed", "Turkish month names with ASCII spelling (subat, mayis, agustos ...) were configured but never recognised",
    {"sub": "languages", "case": {"shape": {"Dates": {"lang": "tr", "shape": {"Literal": {"y": 2020, "m": 2, "d": 12, "spell": {"DMonY": [1, 0, 0]}}}}}}}, commit="c2bb967")

EXTRA = "tools/kf_extra.py"
try:
    exec(open("/verif/" + EXTRA).read())
except FileNotFoundError:
    pass

json.dump({"note": "committed list of genuine defects; read-only at run time; 'fixed' entries suppress nothing, their witness is replayed as a regression case", "findings": F},
          open("/verif/known_findings.json", "w"), indent=1, ensure_ascii=False)
print(len(F), "findings written")
