#!/usr/bin/env python3
"""Maintains /verif/known_findings.json from the entries below (edit here, then run).
The file is read-only at check time."""
import json, sys

def L(v, sign=0, suffix=None):
    return {"Lit": {"mant": float(v), "suffix": suffix, "sign": sign, "group": False}}
def B(op, l, r, j=False):
    return {"Bin": [op, j, l, r]}
def P(e): return {"Paren": e}
def S(neg, e): return {"Sign": [neg, e]}
def c02(e, spaces=None):
    return {"sub": "arith", "case": {"e": e, "spaces": spaces or [], "seps": 0, "assign": None}}

F = []
def add(id, prop, status, what, witness, signature="", commit=None):
    F.append({"id": id, "property": prop, "status": status, "signature": signature, "what": what, "witness": witness, "commit": commit})

# ---- C02 -------------------------------------------------------------------------------------
add("F20", "C02", "fixed", "'3 * - 5 + 2' evaluated to -15: a detached sign prefix did not consume its operand and the rest of the line was dropped",
    c02(B("Add", B("Mul", L(3), S(True, L(5))), L(2)), [0,1,1,1,1,1,1]), commit="eb80c24")
add("F21", "C02", "fixed", "'(((5)))' failed with 'Parentheses not closed': a 0 was inserted in front of the third opening parenthesis",
    c02(P(P(P(L(5))))), commit="4d654bd")
add("F23", "C02", "fixed", "'1 2 + (3)' evaluated to 1 and '2+3*(5+7)' to 2: no implicit '+' was inserted left of the first parenthesis",
    c02(B("Add", B("Mul", L(2), L(3)), P(B("Add", L(5), L(7))))), commit="4d654bd")
add("F25", "C02", "fixed", "'(1)-2' evaluated to 1: a signed literal after a closed group got no operator and was dropped",
    c02(B("Sub", P(L(1)), L(2))), commit="4d654bd")
add("F22", "C02", "fixed", "'2 * -(3)' failed with 'Unary works with number': no sign prefix on a group",
    c02(B("Mul", L(2), S(True, P(L(3))))), commit="706ecf2")
add("F24", "C02", "fixed", "'1M' evaluated to 1000000 Meter and '1k + 1M' was an error: the magnitude suffix was tokenised a second time as a unit name",
    c02(B("Add", L(1, suffix="k"), L(1, suffix="M"))), commit="fad0874")

EXTRA = "tools/kf_extra.py"
try:
    exec(open("/verif/" + EXTRA).read())
except FileNotFoundError:
    pass

json.dump({"note": "committed list of genuine defects; read-only at run time; 'fixed' entries suppress nothing, their witness is replayed as a regression case", "findings": F},
          open("/verif/known_findings.json", "w"), indent=1, ensure_ascii=False)
print(len(F), "findings written")
