#!/usr/bin/env python3
"""seedtable.py: print the markdown table of DESIGN.md 8.1 from /verif/seeded/*/meta.json
(fields needs_to_manifest, detected_by_check, history, wave) and the counts per wave."""
import glob, json, os, re
HERE = os.path.dirname(os.path.dirname(os.path.abspath(__file__)))
rows = []
for d in sorted(glob.glob(HERE + '/seeded/*/')):
    nm = os.path.basename(d.rstrip('/'))
    if not re.match(r'C\d\d-[A-Z]$', nm):
        continue
    m = json.load(open(d + 'meta.json'))
    rows.append((nm, m))
print('| change | what it needs in order to manifest | detected by `./check … quick` of | history |')
print('|---|---|---|---|')
for nm, m in rows:
    need = m['needs_to_manifest'].replace('|', '/')
    if len(need) > 170:
        need = need[:167] + '...'
    print('| %s | %s | %s | %s |' % (nm, need, m['detected_by_check'], m['history'].replace('|', '/')))
print()
for w in sorted({m['wave'] for _, m in rows}):
    ws = [(n, m) for n, m in rows if m['wave'] == w]
    missed = [n for n, m in ws if m['history'].startswith('missed')]
    other = [n for n, m in ws if '(not' in m['detected_by_check']]
    print('wave %d: %d changes, %d missed at first (%s), %d detected by another check only (%s)' % (w, len(ws), len(missed), ' '.join(missed), len(other), ' '.join(other)))
