#!/usr/bin/env python3
"""seedrun.py <name> [--all | ID ...] [--tier quick|thorough]
Apply /verif/seeded/<name>/patch.diff to /repo, run the named checks (default: the property the change
was seeded for), undo the patch, and record the outcome in /verif/seeded/<name>/meta.json."""
import json, os, subprocess, sys, time
args = sys.argv[1:]
REPO = os.environ.get('VERIF_REPO') or '/repo'
HERE = os.path.dirname(os.path.dirname(os.path.abspath(__file__)))
if args and args[0] == '--seeds':
    # run every /verif/seeded/<name>/patch.diff against the check of its property (printed lines only)
    import glob
    only = args[1:]
    for d in sorted(glob.glob(HERE + '/seeded/*/')):
        nm = os.path.basename(d.rstrip('/'))
        if nm.startswith('_') or (only and not any(nm.startswith(o) for o in only)):
            continue
        pid = nm.split('-')[0]
        subprocess.run(['git', '-C', REPO, 'checkout', '--', '.'])
        r = subprocess.run(['git', '-C', REPO, 'apply', d + 'patch.diff'], capture_output=True, text=True)
        if r.returncode != 0:
            print('SEED %s apply-failed' % nm, flush=True); continue
        t0 = time.time()
        p = subprocess.run([HERE + '/check', pid, 'quick'], cwd=HERE, capture_output=True, text=True)
        viol = [l for l in p.stdout.splitlines() if l.startswith('VIOLATION')]
        det = [l.strip() for l in p.stderr.splitlines() if l.startswith('  ')][:2]
        print('SEED %s on %s: exit=%d violations=%d %.0fs | %s' % (nm, pid, p.returncode, len(viol), time.time() - t0, ' // '.join(det)[:400]), flush=True)
        subprocess.run(['git', '-C', REPO, 'checkout', '--', '.'])
    sys.exit(0)
if args and args[0] == '--mutants':
    # run every /verif/mutants/<PROP>-m<k>.diff against the check of its property (and nothing is recorded
    # but the printed lines): used from `vp run --with-repo` with VERIF_REPO=$VP_RUN_REPO
    import glob
    only = args[1:]
    for f in sorted(glob.glob(HERE + '/mutants/*.diff')):
        nm = os.path.basename(f)[:-5]
        if only and not any(nm.startswith(o) for o in only):
            continue
        pid = nm.split('-')[0]
        subprocess.run(['git', '-C', REPO, 'checkout', '--', '.'])
        r = subprocess.run(['git', '-C', REPO, 'apply', f], capture_output=True, text=True)
        if r.returncode != 0:
            print('MUTANT %s apply-failed' % nm, flush=True); continue
        t0 = time.time()
        p = subprocess.run([HERE + '/check', pid, 'quick'], cwd=HERE, capture_output=True, text=True)
        viol = [l for l in p.stdout.splitlines() if l.startswith('VIOLATION')]
        det = [l.strip() for l in p.stderr.splitlines() if l.startswith('  ')][:2]
        print('MUTANT %s on %s: exit=%d violations=%d %.0fs | %s' % (nm, pid, p.returncode, len(viol), time.time() - t0, ' // '.join(det)[:300]), flush=True)
        subprocess.run(['git', '-C', REPO, 'checkout', '--', '.'])
    sys.exit(0)
name = args[0]
tier = 'quick'
ids = []
i = 1
while i < len(args):
    if args[i] == '--all':
        ids = ['C%02d' % k for k in range(1, 20)]
    elif args[i] == '--tier':
        tier = args[i + 1]; i += 1
    else:
        ids.append(args[i])
    i += 1
d = '/verif/seeded/' + name
meta_p = d + '/meta.json'
meta = json.load(open(meta_p)) if os.path.exists(meta_p) else {}
if not ids:
    ids = [meta.get('property') or name.split('-')[0]]
st = subprocess.run(['git', '-C', REPO, 'status', '--porcelain'], capture_output=True, text=True).stdout.strip()
if st:
    print('refusing: /repo is not clean:\n' + st); sys.exit(3)
r = subprocess.run(['git', '-C', REPO, 'apply', d + '/patch.diff'], capture_output=True, text=True)
if r.returncode != 0:
    print('patch does not apply:', r.stderr); sys.exit(3)
results = meta.setdefault('runs', {})
try:
    for pid in ids:
        t0 = time.time()
        env = dict(os.environ)
        p = subprocess.run(['./check', pid, tier], cwd='/verif', capture_output=True, text=True, env=env)
        viol = [l for l in p.stdout.splitlines() if l.startswith('VIOLATION')]
        detail = [l for l in p.stderr.splitlines() if l.startswith('  sub=') or l.startswith('  ')][:6]
        results['%s:%s' % (pid, tier)] = {'exit': p.returncode, 'violations': len(viol), 'wall_s': round(time.time() - t0, 1), 'first': detail[:4]}
        print('%s on %s %s: exit=%d violations=%d %.0fs' % (name, pid, tier, p.returncode, len(viol), time.time() - t0))
        for l in detail[:4]:
            print('   ', l[:300])
finally:
    subprocess.run(['git', '-C', REPO, 'checkout', '--', '.'])
    subprocess.run(['git', '-C', REPO, 'clean', '-fdq', 'src', 'tests'], capture_output=True)
meta['detected_by'] = sorted({k for k, v in results.items() if v['exit'] == 1 and v['violations'] > 0})
json.dump(meta, open(meta_p, 'w'), indent=1, ensure_ascii=False)
